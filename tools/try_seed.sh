#!/bin/bash
# usage: try_seed.sh <prop> <variant a|b> [checks...]
# Confirms a seeded defect in its scratch worktree (suite passes with it, demo
# fails with it and passes without), then applies it to /repo, runs the given
# checks (default: the property's own), and reverts /repo.
set -u
P=$1; V=$2; shift 2
CHECKS=${@:-$P}
WT=/tmp/seed/$P
OUT=/tmp/seed/$P-out/$V
LOG=/tmp/seed/$P-out/$V/confirm.log
: > $LOG
if [ "${SKIP_CONFIRM:-}" = "" ]; then
cd $WT || exit 9
git checkout -q -- . ; git clean -fdq -e target
if ! git apply --check $OUT/patch.diff 2>>$LOG; then echo "PATCH-DOES-NOT-APPLY(worktree)"; exit 9; fi
git apply $OUT/patch.diff
suite_ok=no
for i in 1 2 3; do
  if CARGO_NET_OFFLINE=true cargo test --workspace --offline >>$LOG 2>&1; then suite_ok=yes; break; fi
done
cp $OUT/demo.rs tests/seed_demo.rs
CARGO_NET_OFFLINE=true timeout 900 cargo test --offline --test seed_demo >>$LOG 2>&1; demo_with=$?
git checkout -q -- . 
CARGO_NET_OFFLINE=true timeout 900 cargo test --offline --test seed_demo >>$LOG 2>&1; demo_without=$?
rm -f tests/seed_demo.rs
echo "suite_with_change=$suite_ok demo_with_change_exit=$demo_with demo_without_change_exit=$demo_without" | tee $OUT/confirm.result
fi
# Now against /repo
REPO=${SEED_REPO:-/repo}; VERIF=${SEED_VERIF:-/verif}
cd $REPO
if ! git diff --quiet; then echo "REPO-DIRTY"; exit 9; fi
PATCH=$OUT/patch.diff
[ -f $OUT/patch.rebased.diff ] && PATCH=$OUT/patch.rebased.diff
if git apply --check $PATCH 2>/dev/null; then git apply $PATCH;
elif git apply -C1 --check $PATCH 2>/dev/null; then git apply -C1 $PATCH;
elif patch -p1 -F3 --dry-run < $PATCH >/dev/null 2>&1; then patch -p1 -F3 < $PATCH >>$LOG 2>&1;
else echo "PATCH-DOES-NOT-APPLY(/repo)"; git reset -q --hard HEAD; exit 8; fi
git diff > $OUT/patch.applied-to-repo.diff
cd $VERIF
for c in $CHECKS; do
  ./check $c > /tmp/seed/$P-out/$V/check-$c.log 2>&1; rc=$?
  echo "check $c exit=$rc: $(grep -c '^VIOLATION' /tmp/seed/$P-out/$V/check-$c.log) violation lines; $(grep '^VIOLATION' -A1 /tmp/seed/$P-out/$V/check-$c.log | head -2 | tail -1 | cut -c1-300)"
done
cd $REPO && git checkout -q -- . && git clean -fdq -e target && git status --short | head -3
