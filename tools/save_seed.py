#!/usr/bin/env python3
"""save_seed.py <prop> <agent-variant> <new-letter> <needs> <caught_by>

Copy a confirmed seeded defect from /tmp/seed/<prop>-out/<variant>/ into
/verif/seeded/<prop>-<letter>/ with a meta.json built from the confirmation
result and the check logs that tools/try_seed.sh left there.
"""
import json, os, re, shutil, sys

prop, var, letter, needs, caught = sys.argv[1:6]
src = f"/tmp/seed/{prop}-out/{var}"
sid = f"{prop}-{letter}"
dst = f"/verif/seeded/{sid}"
os.makedirs(dst, exist_ok=True)
for f in ["patch.diff", "demo.rs", "README.md", "patch.rebased.diff"]:
    p = os.path.join(src, f)
    if os.path.exists(p):
        shutil.copy(p, os.path.join(dst, f))
confirm = open(os.path.join(src, "confirm.result")).read().strip() if os.path.exists(os.path.join(src, "confirm.result")) else "not recorded"
checks = {}
for f in sorted(os.listdir(src)):
    m = re.match(r"check-(C\d\d)\.log$", f)
    if not m:
        continue
    txt = open(os.path.join(src, f)).read()
    vl = [l for l in txt.splitlines() if l.startswith("VIOLATION ")]
    first = ""
    for l in txt.splitlines():
        if re.match(r"\s+C\d\d/", l):
            first = l.strip()[:600]
            break
    checks[m.group(1)] = {"violation_lines": vl[:4], "violation_line_count": len(vl), "first_message": first}
meta = {
    "id": sid,
    "breaks_property": prop,
    "source": "independent sub-agent given only the property text and a scratch worktree (later rounds: told which mechanisms earlier rounds had already used)",
    "needs_to_manifest": needs,
    "base_commit": "60bfc82 (/repo HEAD with all fix: commits)",
    "confirmed": {
        "how": "tools/try_seed.sh: in the scratch worktree, repo test suite with the change (cargo test --workspace --offline), demo.rs as tests/seed_demo.rs with and without the change",
        "result": confirm,
    },
    "checks_run_with_change_applied": checks,
    "caught_by": caught,
}
json.dump(meta, open(os.path.join(dst, "meta.json"), "w"), indent=1)
print("saved", sid, {k: v["violation_line_count"] for k, v in checks.items()})
