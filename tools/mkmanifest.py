#!/usr/bin/env python3
"""Regenerate /verif/MANIFEST.json from the table below."""
import json

CLAIMED = {
 "C01": dict(level="model_checking", engine="ring",
   technique="explicit-state BFS to closure over the real ring buffer (transition function = implementation, replayed per state) against a VecDeque reference model; bounded-depth sweeps from every ring offset for native element types; operations include acquire and commit/consume as separate events and two live windows of the same kind",
   text="Every reachable (implementation state, model state) pair of the real circular buffer for capacities 1-12 is enumerated to closure and every operation's observable result is compared with a reference queue; native element types are swept from all wrap offsets to a fixed depth. This decides the property for all histories over the stated alphabet at those capacities, which tests sampling a few histories on a 4 MB buffer cannot.",
   note="Trusted: the reference model (VecDeque), the state-dump hook, the canonicalisation argument in DESIGN.md 3-E1. Assumes one producer and one consumer.", ref="DESIGN.md 3-E1, 5-C01"),
 "C02": dict(level="model_checking", engine="ring",
   technique="explicit-state BFS to closure over the real ring buffer with a tagged commit alphabet, against a reference queue of per-sample tag lists",
   text="Same search as C01 with tagged commits (first/last/both/two-on-one/middle); every read window's tag list is compared with the model in every reachable state, and the tag map is checked for entries that would resurface on a later sample.",
   note="Trusted: reference model, dump hook. Tag values are a fixed menu of one value per TagValue variant.", ref="DESIGN.md 3-E1, 5-C02"),
 "C03": dict(level="model_checking", engine="mt",
   technique="stateless model checking of the real code: deviation-bounded (preemptions + early timeouts <= d, d iterated) depth-first enumeration of thread interleavings on the shuttle runtime under our own scheduler",
   text="A producer thread and a consumer thread run every feasible pair of commit/consume scripts on capacity-1/2(/4) streams; every interleaving at lock, unlock, after-unlock, wait, notify, spawn and join points with at most d preemptions/early timeouts is executed on the real Buffer/stream code, with serial-number content checks, a live-window overlap monitor, and deadlock/livelock detection.",
   note="Trusted: shuttle's continuation runtime, our scheduler, the vsync shim (mutex/condvar/timeouts), window monitor hook. Weak memory is not modelled.", ref="DESIGN.md 3-E2, 5-C03"),
 "C04": dict(level="model_checking", engine="mt",
   technique="stateless model checking of the real code: deviation-bounded DFS over interleavings of {last commit, writer drop} with {wait returns / times out, eof() check, re-read}, for sample and packet streams",
   text="For every small combination of backlog, final commits and `need`, all interleavings with at most d deviations of a writer that commits and goes away against a reader that waits / polls eof (and the mirrored writer-waits case, and packet streams) are run on the real stream code; safety (never told 'never' with enough data or a live peer; nothing lost) and bounded liveness (told within one extra wait) are checked in every execution.",
   note="Trusted: as C03. Timeouts are scheduler choices: early (cost 1) or when nothing else can run (free).", ref="DESIGN.md 3-E2, 5-C04"),
 "C05": dict(level="model_checking", engine="mt",
   technique="stateless model checking of the real MTGraph runner: deviation-bounded DFS over thread interleavings and timeout firings of small generated graphs (chains, tee, rate changers) over capacity-1/2 streams, all/several add orders, against a pure reference result; stages include the real FirFilter and StreamToPdu with a tail",
   text="Each generated graph (source of length 0..2cap+1, one library or harness stage, sink; tee to two sinks; 1- and 2-page streams; several/all add orders) is run on the real MTGraph::run under the controlled scheduler; every execution with at most d deviations must terminate (no deadlock, livelock or step-horizon) and leave every sink equal to the reference result computed by executable specifications.",
   note="Trusted: as C03, plus the executable specifications of the menu blocks (vcommon::specs). Graphs with more than 4 block threads and long sources are out of reach of exhaustive interleaving search.", ref="DESIGN.md 3-E2, 5-C05"),
 "C06": dict(level="model_checking", engine="graphx",
   technique="bounded-exhaustive program enumeration: every graph of a declared family (chains of 0-2 stages, tee, diamond, merge, packet stage) x every permutation of the add order x source lengths around buffer capacity x stream sizes, each run on the real Graph::run and re-run to test quiescence, against executable specifications",
   text="All programs of the family (about 17 000 in the quick tier) are executed on the real single-threaded runner with virtual time; run() must return Ok with every sink equal to the reference result, and calling every block again (a second run()) must move nothing: so run() returns only at quiescence, independent of add order, stream size, and of blocks that report a wait/EOF from a call in which they moved data.",
   note="Trusted: executable specifications of the menu blocks; activity counter hook for the quiescence test. Menu blocks are deterministic Kahn-style blocks.", ref="DESIGN.md 3-E4, 5-C06"),
 "C07": dict(level="model_checking", engine="mt",
   technique="stateless model checking of both runners: deviation-bounded DFS with a canceller task whose cancel() lands between any two scheduling points, and a fault-injecting block failing on its k-th call at every position of a 3-chain; plus an output held by the application (never closed) and a check that no block thread outlives run()",
   text="For infinite and finite sources on Graph and MTGraph: every placement (up to d deviations) of cancel() must make run() return Ok with all threads joined and at most 2 further work() calls per block; a block failing on call k (k=1..3) at each of 3 positions must make run() return exactly that error - not panic, hang or Ok.",
   note="Trusted: as C03; the Instrumented wrapper block that counts calls and injects failures.", ref="DESIGN.md 3-E2, 5-C07"),
 "C08": dict(level="model_checking", engine="envx",
   technique="bounded-exhaustive enumeration of environment-answer sequences (feed k / release k / nothing, then work()) around one real block, from several ring offsets and output fill levels, with a flush tail; differential oracle against the one-shot run; each subject also enumerated after a warm-up prefix; a 'finish' action (all input delivered and closed while output still trickles); the runners' retirement rule is applied (a block that a runner would retire is not called again)",
   text="For every stream-processing block variant in the registry, every sequence of environment actions up to the horizon (drip-feeding 1, 2, q-1, q, q+1 samples; freeing 1, 2, q output slots; doing nothing) is executed on the real block over capacity-2 (fat samples) or pre-positioned native streams, then flushed; the concatenated output must be a prefix of, and after the flush equal to, the output of one-shot delivery on ample streams, bit for bit, with no panic.",
   note="Trusted: the harness ports (feed/observe/release), the stream-plan hook that makes small / pre-positioned streams, fixed test vectors per variant.", ref="DESIGN.md 3-E3, 5-C08"),
 "C09": dict(level="model_checking", engine="envx",
   technique="same enumeration as C08 plus a 'satisfy exactly the named stream' action; trace oracle on every step (leaked windows, false/misdirected waits, idle Again, retirement after inputs end); same warm-up prefixes, finish action and retirement rule as C08; two settle steps before the flush",
   text="Every step of every enumerated execution is judged: no stream window may outlive work(); a wait must name a stream that lacks what is asked, or else the following call must make progress or name another stream (checked with an action that gives the named stream exactly what it asked for and nothing else); three 'Again' in a row with zero stream activity and an untouched environment is an idle spin; once all inputs are closed and drained the verdict must be EOF or a wait on an ended input.",
   note="Trusted: activity counter and live-window registry hooks; StreamWait::verif_id to identify the named stream. Waits on a composite block's internal streams are not judged.", ref="DESIGN.md 3-E3, 5-C09"),
 "C10": dict(level="model_checking", engine="envx",
   technique="executable specifications written from the documentation, compared with the real block's output on the one-shot run and on every enumerated chunked delivery; parameter grids per block",
   text="For each exactly-specified block and each parameter set in the grid, the output (values and count) of the real block equals the specification's, on one-shot delivery and on every drip-feed schedule of the C08 enumeration.",
   note="Trusted: the executable specifications (vcommon::specs and the subject registry). Inputs are fixed boundary vectors per block, not all inputs.", ref="DESIGN.md 3-E3, 5-C10, 6.3"),
 "C12": dict(level="model_checking", engine="envx",
   technique="C08 enumeration over tagged test vectors: every placement of up to two tags (incl. two on one sample) on a 6-sample vector, crossed with all drip-feed schedules; absolute-index tag multiset oracle, plus 'tags of a delivered sample never change'; plus marker tags through one-to-one blocks on the real multithreaded runner under the deviation-bounded interleaving search",
   text="Tags are converted to absolute output indices the first time their sample is seen; after the flush the multiset must equal the specification (identity, shifted by delay, index/decimation, after-skip), no tag may appear at or beyond the window length, on pre-existing samples, or change on a sample that was already delivered.",
   note="Trusted: harness output port bookkeeping; tag specs in the subject registry.", ref="DESIGN.md 3-E3, 5-C12"),
 "C11": dict(level="exploration", engine="dsp",
   technique="exhaustive enumeration of declared finite grids and linear bases against f64 reference definitions with explicit rounding bounds; the engine is built three times so that the scalar, AVX and portable-SIMD variants of the FIR kernel are each judged",
   text="FIR kernel and block: tap counts 1-40, 63-65, 127-129, 200 (every residue mod 8) x every unit-vector tap set x a unit impulse at every input position (complete for bilinear implementations), plus steps, ramps, sinusoids and all sequences up to length 5 over {-1,0,1}; decimations 1-8 keep their phase; FftFilter/FftFilterFloat equal the direct linear convolution with zero pre-history and the FIR output delayed by taps-1; IIR recurrence; Hilbert identity; low_pass symmetric with unit DC gain for all four windows over a rate/cutoff/width grid; FftStream equals an O(n^2) DFT. Exploration: the float input space is not enumerable.",
   note="Trusted: f64 reference implementations and the stated rounding bounds. AVX and nightly portable-simd builds must be available (they are in this sandbox).", ref="DESIGN.md 3-E6, 5-C11"),
 "C13": dict(level="model_checking", engine="hdlc",
   technique="exhaustive small-domain enumeration against a reference framer and an independent validity checker: size limits x payload lengths 0..max+2 and stuffing-heavy contents x flag arrangements x every noise preamble up to 4 (6) bits x every split of the bit stream into two (and many three) pieces; every single-bit and (nearly) every double-bit corruption with bit fixing off and on",
   text="About 110 000 bit streams in the quick tier are fed to the real deframer in pieces. Recovery: every in-bounds frame comes out exactly once, in order, also right after an out-of-bounds frame, shared flags, and noise. Validity: every emitted packet must be encoded (payload + CRC-16/X.25, or within one bit of it when fixing is on) by some flag-delimited, abort-free region of the input bit stream - checked by a validator that knows nothing about the deframer's state machine.",
   note="Trusted: the reference framer and CRC (bitwise from the polynomial), the region validator. Size limits are taken to count the bytes between flags including the CRC, inclusive.", ref="DESIGN.md 3-E6, 5-C13"),
 "C14": dict(level="exploration", engine="formats",
   technique="exhaustive enumeration of declared finite domains: parse(serialize(x)) over all u8 and a structured set of u32/i32/f32/Complex bit patterns (thorough: all 2^32 per 32-bit type); FileSink->FileSource and AuEncode->AuDecode through the real runner over a length grid and all add orders; SigMF archive members in all 24 orders; EVERY composition of a 12-byte stream into read() results, delivered in lockstep through a FIFO (FileSource) and a loopback socket (TcpSource) against a byte-queue reassembler; plus the file sink under the deviation-bounded interleaving search, and the AU codec blocks under the drip-feed enumeration",
   text="Round trips are bit-exact for every enumerated value; files and AU streams come back with exact counts; SigMF data equals the source bytes for recording pairs and for archives in every member order with unrelated members; and for all 2048 ways of splitting a 12-byte stream into reads (1-byte reads, splits inside a sample) both byte-stream sources reassemble exactly the samples of the byte stream. Exhaustive over the declared domains, not over all values in the quick tier.",
   note="Trusted: the lockstep delivery (FIONREAD on the client socket before each work() call; FIFO writes are synchronous). SigMF reads a regular file whose read() cannot be segmented from outside.", ref="DESIGN.md 3-E6, 5-C14"),
 "C15": dict(level="exploration", engine="crashx",
   technique="exhaustive small-domain input enumeration per block family (all bursts up to 7/8 samples over a 4-value alphabet, all bit strings up to 12/14 bits, all sequences up to 3/4 over 9 float specials, all marker placements, an AU header grid with every truncation point, every length for Sample::parse, SigMF metadata mutations and every archive prefix), each case run to quiescence on the real block under catch_unwind with a call cap",
   text="Every case of each declared finite domain is executed on the real code; the oracle is 'normal output, dropped data or Err - never a panic, an abort, or a block that never goes quiet'. Exhaustive within the declared domains, which are finite slices of an infinite input space: hence exploration, not a claim about all inputs.",
   note="Trusted: catch_unwind isolation, the call cap as the definition of 'spins forever'. Bit-stream blocks are only fed 0/1.", ref="DESIGN.md 3-E6, 5-C15"),
 "C16": dict(level="model_checking", engine="envx",
   technique="bounded-exhaustive enumeration of downstream consumption schedules (release k slots / nothing, then work()) around the real VectorSource, FileSource and SigMFSource on capacity-2 streams, for data lengths 0-5 x repeat {0,1,2,3,infinite}; explicit-state enumeration of all call sequences on the Repeat API to depth 8 against a reference counter",
   text="Every consumption schedule up to the horizon, from four ring offsets / fill levels, must yield exactly data x repeat, EOF exactly when everything has been emitted and never for an infinite repeat, marker tags once per repetition on its first sample, and no panic; every sequence of again()/done()/count() calls up to depth 8 from finite(0..3) and infinite() must agree with a reference counter and never over/underflow.",
   note="Trusted: harness output port, reference counter, temp files for FileSource/SigMF recording. A runner never calls work() after EOF; the search does not either.", ref="DESIGN.md 3-E3, 5-C16"),
 "C17": dict(level="fault_enumeration", engine="faultx",
   technique="crash-point enumeration with strace: the sink's syscall history is recorded, then the child is re-run once per write syscall and SIGKILLed at entry of exactly that syscall (plus 'after the last'); open-mode table enumerated over modes x initial file states x sink kinds; plus deviation-bounded interleaving search of the real FileSink thread against a source thread committing in small pieces (file content vs committed stream)",
   text="Every kill point of a 6-chunk (stream) and 4-packet history, for three open modes and both sinks, must leave a file that is a prefix of the serialised stream holding at least the bytes acknowledged so far (stream sink: consumed from the stream - seen through a consume hook that writes a marker syscall; packet sink: work() returned, or a later packet already taken off the queue). The documented open-mode table (create fails iff exists; overwrite leaves exactly the new data; append keeps and adds, creating if absent) is checked for every initial state.",
   note="Trusted: strace's syscall injection (kill at syscall entry), the recorded history being reproducible (recorded twice and compared). Process kill, not power loss. Runs as root: permission-based unwritable files are not exercised.", ref="DESIGN.md 3-E5, 5-C17"),
 "C18": dict(level="fault_enumeration", engine="maps+faultx",
   technique="all create/drop sequences up to depth 5 (6) over 9 operations with /proc/self/maps and /proc/self/fd counted after every operation, an every-byte aliasing check through the public window API; fault-point enumeration with strace: an error injected at every openat/ftruncate/mmap of the recorded setup history",
   text="26 000 create/drop sequences (sizes of 1-2 pages, u8/u64, bad sizes 100 and 4097, element size 3, drops in both orders and on another thread) must keep mappings at baseline + 2 per live stream and descriptors at baseline; bad setups must be refused; surviving streams are written via the upper half and read back via the lower half. Every setup syscall of 1-3 consecutive constructions fails once (EMFILE/ENOSPC/ENOMEM): the constructor must return Err, not panic, and leak nothing.",
   note="Trusted: /proc accounting, strace error injection. MAP_FIXED misplacement cannot be injected.", ref="DESIGN.md 3-E5, 5-C18"),
 "C19": dict(level="model_checking", engine="envx",
   technique="C08-style enumeration on blocks defined in the harness with #[derive(Block)]: sync 1x1, 2x1, 1x2, 3x2, 2x3, sync_tag 1x1 and 3x3, default/into fields, a new()-only block with copy and non-copy outputs; per-call accounting oracle; generated eof() over all 4^n input states",
   text="For every drip-feed schedule up to the horizon each call must process exactly min(shortest input, smallest output space) steps on every stream and answer Again, or move nothing and wait (need 1) on a stream that really is an empty input or a full output; outputs equal the per-sample function, tags of the first input follow, new() returns read ends in declaration order, and the generated eof() is true iff all inputs are gone and drained (all 4+16+64 combinations).",
   note="Trusted: as C08. The derive macro is exercised through blocks compiled into the harness, so a macro change is picked up by the rebuild.", ref="DESIGN.md 3-E3, 5-C19"),
 "C20": dict(level="exploration", engine="e2e",
   technique="exhaustive enumeration of a declared configuration grid (quick: a covering sub-grid of 440 points, thorough: the full product) of synthesised clean transmissions, each decoded by the real receive chain on both runners and compared with the transmitted frame list",
   text="Harness modulators (Bell-202 AFSK with continuous phase, NRZI, HDLC; G3RUH scrambled NRZI 2-FSK) produce every grid point: payload family x length 10-300 x 1/3/8 frames x flags between x preamble x start phase x sub-sample symbol timing x sample rate x runner. The chain re-assembled from the examples (constructor order checked against examples/ax25-*-rx.rs on every run) must deliver exactly the transmitted frames, once, in order, and nothing else. Exhaustive over the grid only: payloads and waveforms are not enumerable, and multi-threaded runs use OS scheduling.",
   note="Trusted: the modulators and reference framer. The 9600-baud chain uses the ZeroCrossing block, as the property says ('zero-crossing clock recovery'); the example file's SymbolSync stage is replaced by it.", ref="DESIGN.md 5-C20"),
}

ENGINES = [
 {"name": "ring", "path": "/verif/harness/seq/src/ring.rs", "serves_properties": ["C01", "C02"],
  "kind_free_text": "explicit-state search of the real circular buffer, replay-per-state, reference-model oracle"},
{"name": "envx", "path": "/verif/harness/seq/src/envx.rs", "serves_properties": ["C08", "C09", "C10", "C12", "C16", "C19"],
  "kind_free_text": "bounded-exhaustive enumeration of environment-answer sequences around one real block (harness owns all stream ends), re-execution per sequence"},
{"name": "graphx", "path": "/verif/harness/seq/src/graphx.rs", "serves_properties": ["C06"],
  "kind_free_text": "bounded-exhaustive enumeration of small graph programs in all add orders on the real single-threaded runner"},
{"name": "hdlc", "path": "/verif/harness/seq/src/hdlc.rs", "serves_properties": ["C13"],
  "kind_free_text": "exhaustive small-domain enumeration of HDLC bit streams, chunkings and corruptions against a reference framer"},
{"name": "crashx", "path": "/verif/harness/seq/src/crashx.rs", "serves_properties": ["C15"],
  "kind_free_text": "exhaustive small-domain input enumeration with a no-panic / no-spin oracle"},
{"name": "faultx", "path": "/verif/harness/faultx.py", "serves_properties": ["C17", "C18"],
  "kind_free_text": "crash-point / fault-point enumeration of child processes under strace syscall injection"},
 {"name": "maps", "path": "/verif/harness/seq/src/maps.rs", "serves_properties": ["C18"],
  "kind_free_text": "exhaustive create/drop sequences with mapping and descriptor accounting"},
{"name": "formats", "path": "/verif/harness/seq/src/formats.rs", "serves_properties": ["C14"],
  "kind_free_text": "exhaustive enumeration of value domains, length grids, member orders and read segmentations for the byte formats"},
{"name": "dsp", "path": "/verif/harness/seq/src/dsp.rs", "serves_properties": ["C11"],
  "kind_free_text": "grid / basis enumeration of DSP kernels against f64 definitions, in three kernel builds"},
{"name": "e2e", "path": "/verif/harness/seq/src/e2e.rs", "serves_properties": ["C20"],
  "kind_free_text": "configuration-grid enumeration of synthesised transmissions through the real receive chains on both runners"},
 {"name": "mt", "path": "/verif/harness/mt/src", "serves_properties": ["C03", "C04", "C05", "C07"],
  "kind_free_text": "stateless model checking: deviation-bounded DFS over schedules of the real code on the shuttle runtime, timeouts as scheduler choices"},
]

NOT_APPLICABLE_REASON = {}

def main():
    props = [json.loads(l) for l in open('/verif/properties.jsonl')]
    checks = []
    for pid, c in CLAIMED.items():
        checks.append({
            "property_id": pid,
            "quick_cmd": f"./check {pid} --tier quick",
            "thorough_cmd": f"./check {pid} --tier thorough",
            "evidence_file": f"/verif/evidence/{pid}.json",
            "replay_cmd_template": "./check replay {path}",
            "engine": c["engine"],
            "level_claimed": {"category": c["level"], "text": c["text"], "design_ref": c["ref"]},
            "level_note": c["note"],
            "technique": c["technique"],
        })
    na = [{"property_id": p["id"],
           "reason": NOT_APPLICABLE_REASON.get(p["id"], "check under construction (model-checking plan in DESIGN.md section 5); not yet claimed")}
          for p in props if p["id"] not in CLAIMED]
    import subprocess
    hooks = subprocess.run(["git", "-C", "/repo", "log", "--format=%h %s"], capture_output=True, text=True).stdout.splitlines()
    hook_commits = [l.split()[0] for l in hooks if l.split(" ", 1)[1].startswith("verif hooks")]
    m = {
        "version": 1,
        "setup_cmd": "./check build",
        "hooks": {
            "guard": "cargo feature `verif` (and `verif-shuttle` on top of it) of the rustradio crate",
            "enable": "harness crates depend on rustradio by path=/repo with features=[\"verif\"] (vseq, vchild) or [\"verif-shuttle\"] (vmt); `./check` runs cargo build --offline --release before every check",
            "baseline_off_cmd": "cd /repo && cargo test --workspace --no-fail-fast --offline",
            "source_commits": hook_commits[::-1],
            "add_only": True,
        },
        "engines": ENGINES,
        "checks": checks,
        "not_applicable": na,
        "notes": "All checks are bounded-exhaustive explorations (model checking family). Exit codes of ./check: 0 held / 1 violation / 2 /repo does not build / 3 machinery error. Known findings: /verif/known_findings.json.",
    }
    json.dump(m, open('/verif/MANIFEST.json', 'w'), indent=1)

if __name__ == "__main__":
    main()
