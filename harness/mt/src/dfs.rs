//! Deviation-bounded depth-first search over schedules of real code running on
//! shuttle, with timeouts as first-class scheduler choices.
//!
//! * At every scheduling point the enabled tasks are ordered canonically: the
//!   task that ran last (if still enabled), then ascending id, then the
//!   "clock". Choice 0 is the default.
//! * Switching away from a still-enabled task costs 1 (preemption). Running the
//!   clock while any other task is enabled costs 1 (early timeout); which
//!   timed waiter it hits is a further, free, enumerated choice. When nothing
//!   else is enabled, the clock runs for free and fires the longest waiting
//!   waiter (time passes).
//! * Executions are re-run from the start; a prefix of choices is replayed and
//!   then choice 0 is taken everywhere. Any mismatch in the number of options
//!   while replaying is a machinery error.
use std::cell::RefCell;
use std::rc::Rc;
use std::sync::atomic::{AtomicBool, AtomicU64, Ordering};

use shuttle::scheduler::{Schedule, Scheduler, Task, TaskId};

/// True while the clock is between picking a waiter and having notified it.
pub static CLOCK_FIRING: AtomicBool = AtomicBool::new(false);
/// Set by the scenario when everything but the clock is finished.
pub static DONE: AtomicBool = AtomicBool::new(false);
/// Progress that is not stream activity (harness bumps it).
pub static PROGRESS: AtomicU64 = AtomicU64::new(0);
/// A violation was recorded mid-execution: stop this execution.
pub static ABORT: AtomicBool = AtomicBool::new(false);

pub const CLOCK_TASK: usize = 1;

#[derive(Clone, Debug)]
pub struct Point {
    pub n: u32,
    pub chosen: u32,
    pub costs: Vec<u8>,
    pub cost_before: u32,
}

#[derive(Clone, Copy, Debug, PartialEq, Eq)]
pub enum Status {
    Running,
    Deadlock,
    Livelock,
    StepCap,
    Aborted,
}

pub struct Search {
    pub bound: u32,
    pub prefix: Vec<u32>,
    pub pos: usize,
    pub trace: Vec<Point>,
    pub cost: u32,
    pub stack: Vec<Vec<u32>>,
    pub last_real: Option<TaskId>,
    pub tick_free: bool,
    pub idle_ticks: u32,
    pub last_progress: u64,
    pub max_task: usize,
    pub steps: u64,
    pub step_cap: u64,
    pub status: Status,
    pub executions: u64,
    pub total_steps: u64,
    pub max_steps_seen: u64,
    pub max_points: usize,
    pub machinery_error: Option<String>,
    pub single: bool,
    pub stop: bool,
    pub max_executions: u64,
    pub capped: bool,
    pub started: bool,
    /// Called after each execution with the search state; returns true to stop.
    /// Cost of picking a non-default task when the default is not a
    /// preemption (the last task blocked, finished or went to sleep). 0 means
    /// all non-preemptive schedules are explored at every bound (CHESS); 1
    /// makes every departure from the default schedule a deviation, which keeps
    /// the search finite for long-running programs.
    pub free_alt_cost: u8,
    /// Consecutive scheduling points given to `last_real`.
    pub run_length: u32,
    /// Time slice: after this many consecutive points the running task is
    /// treated as if it had yielded, so that the default schedule is fair.
    pub quantum: u32,
}

impl Search {
    pub fn new(bound: u32) -> Self {
        Self {
            bound,
            prefix: vec![],
            pos: 0,
            trace: vec![],
            cost: 0,
            stack: vec![],
            last_real: None,
            tick_free: false,
            idle_ticks: 0,
            last_progress: 0,
            max_task: 0,
            steps: 0,
            step_cap: 200_000,
            status: Status::Running,
            executions: 0,
            total_steps: 0,
            max_steps_seen: 0,
            max_points: 0,
            machinery_error: None,
            single: false,
            stop: false,
            max_executions: u64::MAX,
            capped: false,
            started: false,
            free_alt_cost: 0,
            run_length: 0,
            quantum: 100,
        }
    }

    fn decide(&mut self, costs: &[u8]) -> usize {
        let n = costs.len() as u32;
        debug_assert!(n >= 2);
        let chosen = if self.pos < self.prefix.len() {
            let c = self.prefix[self.pos];
            if c >= n {
                self.machinery_error = Some(format!(
                    "replay divergence at point {}: choice {c} but only {n} options",
                    self.pos
                ));
                0
            } else {
                c
            }
        } else {
            0
        };
        self.pos += 1;
        self.trace.push(Point {
            n,
            chosen,
            costs: costs.to_vec(),
            cost_before: self.cost,
        });
        self.cost += costs[chosen as usize] as u32;
        chosen as usize
    }

    /// Choices made in the current/last execution.
    pub fn choices(&self) -> Vec<u32> {
        self.trace.iter().map(|p| p.chosen).collect()
    }

    /// After an execution: push the unexplored alternatives.
    fn expand(&mut self) {
        if self.single {
            return;
        }
        let start = self.prefix.len();
        // Push in reverse so that the earliest deviation is explored first.
        let mut kids = Vec::new();
        for i in start..self.trace.len() {
            let p = &self.trace[i];
            for alt in 1..p.n {
                if p.cost_before + p.costs[alt as usize] as u32 <= self.bound {
                    let mut c: Vec<u32> = self.trace[..i].iter().map(|p| p.chosen).collect();
                    c.push(alt);
                    kids.push(c);
                }
            }
        }
        while let Some(k) = kids.pop() {
            self.stack.push(k);
        }
    }
}

#[derive(Clone)]
pub struct BoundedDfs(pub Rc<RefCell<Search>>);

impl Scheduler for BoundedDfs {
    fn new_execution(&mut self) -> Option<Schedule> {
        let s = &mut *self.0.borrow_mut();
        if s.started {
            // Finish bookkeeping for the previous execution.
            s.total_steps += s.steps;
            s.max_steps_seen = s.max_steps_seen.max(s.steps);
            s.max_points = s.max_points.max(s.trace.len());
            if s.pos < s.prefix.len() && s.machinery_error.is_none() && s.status == Status::Running {
                s.machinery_error = Some(format!(
                    "replay divergence: execution ended after {} of {} prefix choices",
                    s.pos,
                    s.prefix.len()
                ));
            }
            if s.stop || s.machinery_error.is_some() || s.status != Status::Running || s.single {
                return None;
            }
            s.expand();
            match s.stack.pop() {
                Some(p) => s.prefix = p,
                None => return None,
            }
            if s.executions >= s.max_executions {
                s.capped = true;
                return None;
            }
        }
        s.started = true;
        s.executions += 1;
        s.pos = 0;
        s.trace.clear();
        s.cost = 0;
        s.last_real = None;
        s.run_length = 0;
        s.tick_free = false;
        s.idle_ticks = 0;
        s.last_progress = 0;
        s.steps = 0;
        s.max_task = 0;
        s.status = Status::Running;
        CLOCK_FIRING.store(false, Ordering::SeqCst);
        DONE.store(false, Ordering::SeqCst);
        ABORT.store(false, Ordering::SeqCst);
        PROGRESS.store(0, Ordering::SeqCst);
        rustradio::vsync::SLEEP_HINT.store(false, Ordering::SeqCst);
        rustradio::vsync::reset_timed_waiters();
        rustradio::verif::reset_windows();
        Some(Schedule::new(0))
    }

    fn next_task(
        &mut self,
        runnable: &[&Task],
        _current: Option<TaskId>,
        _is_yielding: bool,
    ) -> Option<TaskId> {
        let s = &mut *self.0.borrow_mut();
        s.steps += 1;
        if s.steps > s.step_cap {
            s.status = Status::StepCap;
            fatal(
                "step-horizon",
                &format!("execution exceeded {} scheduling points", s.step_cap),
                s.choices(),
            );
        }
        if s.machinery_error.is_some() {
            return None;
        }
        let clock = TaskId::from(CLOCK_TASK);
        let clock_runnable = runnable.iter().any(|t| t.id() == clock);
        if CLOCK_FIRING.load(Ordering::SeqCst) && clock_runnable {
            return Some(clock);
        }
        let real: Vec<TaskId> = runnable.iter().map(|t| t.id()).filter(|t| *t != clock).collect();
        for t in &real {
            s.max_task = s.max_task.max(usize::from(*t));
        }
        let w = rustradio::vsync::timed_waiter_count();
        let done = DONE.load(Ordering::SeqCst);
        let mut slept = rustradio::vsync::SLEEP_HINT.swap(false, Ordering::SeqCst);
        if s.run_length >= s.quantum {
            slept = true;
        }
        if real.is_empty() {
            if done {
                return Some(clock);
            }
            if w > 0 && clock_runnable {
                // Time passes: free tick. Watch for livelock.
                let prog = rustradio::verif::activity() + PROGRESS.load(Ordering::SeqCst);
                if prog == s.last_progress {
                    s.idle_ticks += 1;
                } else {
                    s.idle_ticks = 0;
                    s.last_progress = prog;
                }
                if s.idle_ticks as usize > 4 * (s.max_task + 1) + 8 {
                    s.status = Status::Livelock;
                    fatal(
                        "livelock",
                        "only timeouts fire, with no stream activity or other progress",
                        s.choices(),
                    );
                }
                s.tick_free = true;
                return Some(clock);
            }
            s.status = Status::Deadlock;
            fatal("deadlock", "no task enabled and no timed waiter", s.choices());
        }
        let mut opts: Vec<(TaskId, u8)> = Vec::with_capacity(real.len() + 1);
        if slept {
            // The task that went to sleep goes last; nobody is preempted.
            let sleeper = s.last_real;
            for t in &real {
                if Some(*t) != sleeper {
                    let c = if opts.is_empty() { 0 } else { s.free_alt_cost };
                    opts.push((*t, c));
                }
            }
            if let Some(t) = sleeper.filter(|t| real.contains(t)) {
                let c = if opts.is_empty() { 0 } else { s.free_alt_cost };
                opts.push((t, c));
            }
        } else {
            let lr = s.last_real.filter(|t| real.contains(t));
            if let Some(t) = lr {
                opts.push((t, 0));
            }
            for t in &real {
                if Some(*t) != lr {
                    let c = if lr.is_some() {
                        1
                    } else if opts.is_empty() {
                        0
                    } else {
                        s.free_alt_cost
                    };
                    opts.push((*t, c));
                }
            }
        }
        if w > 0 && clock_runnable {
            opts.push((clock, 1));
        }
        let idx = if opts.len() == 1 {
            0
        } else {
            let costs: Vec<u8> = opts.iter().map(|o| o.1).collect();
            s.decide(&costs)
        };
        let t = opts[idx].0;
        if t == clock {
            s.tick_free = false;
        } else {
            if s.last_real == Some(t) {
                s.run_length += 1;
            } else {
                s.run_length = 0;
            }
            s.last_real = Some(t);
        }
        Some(t)
    }

    fn next_u64(&mut self) -> u64 {
        let s = &mut *self.0.borrow_mut();
        let w = rustradio::vsync::timed_waiter_count();
        if s.tick_free || w <= 1 {
            return 0;
        }
        let mut costs = vec![s.free_alt_cost; w];
        costs[0] = 0;
        s.decide(&costs) as u64
    }
}

/// The clock task body. Must be the first task spawned by the scenario.
pub fn clock_body() {
    use shuttle::rand::RngCore;
    assert_eq!(usize::from(shuttle::current::me()), CLOCK_TASK, "clock must be task 1");
    loop {
        if DONE.load(Ordering::SeqCst) {
            break;
        }
        let ws = rustradio::vsync::timed_waiters();
        if !ws.is_empty() {
            CLOCK_FIRING.store(true, Ordering::SeqCst);
            let idx = (shuttle::rand::thread_rng().next_u64() as usize) % ws.len();
            ws[idx].fire();
            CLOCK_FIRING.store(false, Ordering::SeqCst);
        }
        shuttle::thread::yield_now();
    }
}

/// Outcome of exploring one scenario at one bound.
#[derive(Debug, Clone)]
pub struct Explored {
    pub executions: u64,
    pub steps: u64,
    pub max_steps: u64,
    pub max_points: usize,
    pub capped: bool,
    pub machinery_error: Option<String>,
}

thread_local! {
    static CURRENT: RefCell<Option<Rc<RefCell<Search>>>> = const { RefCell::new(None) };
}

/// What to do when a violation is found: gets (kind, message, choices) and
/// must not return. Set by main.
pub static ON_FATAL: std::sync::Mutex<Option<Box<dyn Fn(&str, &str, Vec<u32>) + Send>>> =
    std::sync::Mutex::new(None);

/// Report a violation and leave the process, without unwinding through the
/// scheduler runtime (tearing down half-finished tasks is not worth trusting).
pub fn fatal(kind: &str, msg: &str, choices: Vec<u32>) -> ! {
    let f = ON_FATAL.lock().unwrap_or_else(|e| e.into_inner());
    if let Some(f) = f.as_ref() {
        f(kind, msg, choices);
    }
    eprintln!("fatal without handler: [{kind}] {msg}");
    std::process::exit(3);
}

/// Choices of the execution in progress. None if the search state is busy
/// (then we are inside the scheduler: a machinery fault).
pub fn current_choices() -> Option<Vec<u32>> {
    CURRENT.with(|c| {
        let c = c.borrow();
        let s = c.as_ref()?;
        let s = s.try_borrow().ok()?;
        Some(s.choices())
    })
}

/// Record a violation from scenario code.
pub fn violate(kind: &str, msg: String) -> ! {
    match current_choices() {
        Some(c) => fatal(kind, &msg, c),
        None => {
            eprintln!("machinery error: violation [{kind}] {msg} raised inside the scheduler");
            std::process::exit(3);
        }
    }
}

/// Explore `scenario` under the given deviation bound. If `replay` is given,
/// run exactly that one execution. Violations do not return (see `fatal`).
pub fn explore<F>(
    bound: u32,
    free_alt_cost: u8,
    replay: Option<Vec<u32>>,
    max_executions: u64,
    scenario: F,
) -> Explored
where
    F: Fn() + Send + Sync + 'static,
{
    let mut search = Search::new(bound);
    search.max_executions = max_executions;
    search.free_alt_cost = free_alt_cost;
    if let Some(p) = replay {
        search.prefix = p;
        search.single = true;
        search.bound = u32::MAX;
    }
    let shared = Rc::new(RefCell::new(search));
    CURRENT.with(|c| *c.borrow_mut() = Some(shared.clone()));
    let sched = BoundedDfs(shared.clone());
    let mut config = shuttle::Config::new();
    config.max_steps = shuttle::MaxSteps::None;
    config.failure_persistence = shuttle::FailurePersistence::None;
    config.silence_warnings = true;
    config.stack_size = 0x40000;
    let runner = shuttle::Runner::new(sched, config);
    runner.run(move || {
        scenario();
    });
    CURRENT.with(|c| *c.borrow_mut() = None);
    let mut s = shared.borrow_mut();
    Explored {
        executions: s.executions,
        steps: s.total_steps,
        max_steps: s.max_steps_seen,
        max_points: s.max_points,
        capped: s.capped,
        machinery_error: s.machinery_error.take(),
    }
}
