//! Interleaving engine: deviation-bounded DFS over schedules of the real
//! stream / runner code on shuttle (C03, C04, C05, C07).
mod dfs;
mod streams;

use serde_json::{Value, json};
use vcommon::*;

use streams::{EosParams, PcParams};

#[derive(Clone, Debug)]
pub enum Scenario {
    Pc(PcParams),
    Eos(EosParams),
}

impl Scenario {
    fn to_json(&self) -> Value {
        match self {
            Scenario::Pc(p) => p.to_json(),
            Scenario::Eos(p) => p.to_json(),
        }
    }
    fn from_json(v: &Value) -> Self {
        match v["scenario"].as_str().unwrap() {
            "pc" => Scenario::Pc(PcParams::from_json(v)),
            "eos" => Scenario::Eos(EosParams::from_json(v)),
            s => panic!("unknown scenario {s}"),
        }
    }
    fn subject(&self) -> String {
        match self {
            Scenario::Pc(_) => "producer-consumer".into(),
            Scenario::Eos(p) => p.kind.clone(),
        }
    }
    fn run(&self) {
        match self {
            Scenario::Pc(p) => streams::pc_scenario(p),
            Scenario::Eos(p) => streams::eos_scenario(p),
        }
    }
}

/// Can the two scripts complete at all on a buffer of this capacity? (A
/// writer needing 2 free slots facing a reader needing 2 samples, with 1
/// buffered, is a deadlock of the *program*, not of the stream.)
fn feasible(cap: usize, w: &[usize], r: &[usize]) -> bool {
    let (mut wi, mut ri, mut used) = (0, 0, 0usize);
    loop {
        if wi == w.len() && ri == r.len() {
            return true;
        }
        let mut moved = false;
        if wi < w.len() && cap - used >= w[wi] {
            used += w[wi];
            wi += 1;
            moved = true;
        }
        if ri < r.len() && used >= r[ri] {
            used -= r[ri];
            ri += 1;
            moved = true;
        }
        if !moved {
            return false;
        }
    }
}

fn c03_scenarios(thorough: bool) -> Vec<Scenario> {
    let mut v = Vec::new();
    let ns: &[usize] = if thorough { &[3, 4, 5] } else { &[3] };
    let caps: &[usize] = if thorough { &[1, 2, 4] } else { &[1, 2] };
    for &cap in caps {
        for &n in ns {
            let comps = compositions(n, cap);
            for w in &comps {
                for r in &comps {
                    if !feasible(cap, w, r) {
                        continue;
                    }
                    for (wf, rf) in [(false, false), (true, true)] {
                        if cap == 1 && wf {
                            continue; // need is 1 either way
                        }
                        v.push(Scenario::Pc(PcParams {
                            cap,
                            pages: 1,
                            wscript: w.clone(),
                            rscript: r.clone(),
                            wneed_full: wf,
                            rneed_full: rf,
                            hold: true,
                        }));
                    }
                }
            }
        }
    }
    // Two-page stream with the capacity-1 element: capacity 2, different
    // geometry.
    v.push(Scenario::Pc(PcParams {
        cap: 1,
        pages: 2,
        wscript: vec![2, 1],
        rscript: vec![1, 2],
        wneed_full: false,
        rneed_full: false,
        hold: true,
    }));
    v
}

fn c04_scenarios(_thorough: bool) -> Vec<Scenario> {
    let mut v = Vec::new();
    for kind in ["reader", "reader-eof", "nc-reader", "nc-reader-eof"] {
        for j in 0..=2 {
            for need in 1..=2 {
                for backlog in 0..=1 {
                    v.push(Scenario::Eos(EosParams {
                        kind: kind.into(),
                        j,
                        need,
                        backlog,
                    }));
                }
            }
        }
    }
    for j in 0..=2 {
        for need in 1..=2 {
            v.push(Scenario::Eos(EosParams {
                kind: "writer".into(),
                j,
                need,
                backlog: 0,
            }));
        }
    }
    v.push(Scenario::Eos(EosParams {
        kind: "nc-writer".into(),
        j: 0,
        need: 1,
        backlog: 0,
    }));
    v
}

fn scenarios(prop: &str, thorough: bool) -> Vec<Scenario> {
    match prop {
        "C03" => c03_scenarios(thorough),
        "C04" => c04_scenarios(thorough),
        _ => vec![],
    }
}

fn max_bound(prop: &str, thorough: bool) -> u32 {
    match (prop, thorough) {
        ("C03", false) => 2,
        ("C03", true) => 3,
        ("C04", false) => 2,
        ("C04", true) => 3,
        (_, false) => 1,
        (_, true) => 2,
    }
}

fn main() {
    let args: Vec<String> = std::env::args().collect();
    quiet_panics();
    if args.len() >= 3 && args[1] == "replay" {
        let txt = std::fs::read_to_string(&args[2]).expect("read replay file");
        let v: Value = serde_json::from_str(&txt).expect("parse replay file");
        let sc = Scenario::from_json(&v["replay"]["scenario"]);
        let choices: Vec<u32> = v["replay"]["choices"]
            .as_array()
            .unwrap()
            .iter()
            .map(|x| x.as_u64().unwrap() as u32)
            .collect();
        let sc2 = sc.clone();
        let ex = dfs::explore(u32::MAX, Some(choices), 1, move || sc2.run());
        if let Some(e) = ex.machinery_error {
            println!("replay: machinery error: {e}");
            std::process::exit(3);
        }
        match ex.failure {
            Some((kind, msg, _)) => {
                println!("replay: VIOLATION reproduced: [{kind}] {msg}");
                std::process::exit(1);
            }
            None => {
                println!("replay: no violation");
                std::process::exit(0);
            }
        }
    }
    if args.len() < 3 {
        eprintln!("usage: vmt <property> <tier> [shard/nshards] | vmt replay <file>");
        std::process::exit(3);
    }
    let prop = args[1].clone();
    let thorough = args[2] == "thorough";
    let (shard, nshards) = match args.get(3) {
        Some(s) => {
            let (a, b) = s.split_once('/').unwrap();
            (a.parse::<usize>().unwrap(), b.parse::<usize>().unwrap())
        }
        None => (0, 1),
    };
    let mut rep = Report::new(&prop, "mt");
    rep.rule = "executions of the real code under a controlled scheduler (shuttle runtime, own deviation-bounded DFS): \
        every interleaving at lock / unlock / after-unlock / wait / notify / spawn / join points with at most d preemptions \
        plus early timeouts, d iterated from 0; each execution is one case; distinct_nontrivial counts executions with at \
        least one deviation from the default schedule"
        .into();
    rep.assumptions = vec![
        "sample memory is touched only through window slices, so window disjointness (monitored) stands in for a data-race detector".into(),
        "hardware memory ordering weaker than sequential consistency at mutex boundaries is not modelled".into(),
        "timeouts may fire at any scheduling point (cost 1) or when nothing else can run (free, longest waiter first)".into(),
    ];
    let scs = scenarios(&prop, thorough);
    let dmax = max_bound(&prop, thorough);
    let mut completed_bound = vec![];
    let max_exec = if thorough { 50_000_000 } else { 3_000_000 };
    'outer: for (i, sc) in scs.iter().enumerate() {
        if i % nshards != shard {
            continue;
        }
        let mut last = None;
        for d in 0..=dmax {
            let sc2 = sc.clone();
            let ex = dfs::explore(d, None, max_exec, move || sc2.run());
            rep.evaluations += ex.executions;
            rep.transitions += ex.steps;
            rep.states += ex.steps;
            rep.traces_validated += ex.executions;
            if d > 0 {
                rep.distinct_nontrivial += ex.executions.saturating_sub(1);
            }
            if let Some(e) = &ex.machinery_error {
                eprintln!("machinery error in {:?} at bound {d}: {e}", sc.to_json());
                std::process::exit(3);
            }
            if ex.capped {
                rep.cap(format!("{} bound {d}: execution cap {max_exec} reached", sc.to_json()));
            }
            if let Some((kind, msg, choices)) = &ex.failure {
                rep.violation(
                    format!("{prop}/{}/{kind}", sc.subject()),
                    format!("{} at deviation bound {d} (execution {}): {msg}", sc.to_json(), ex.executions),
                    json!({"engine":"mt","bin":"vmt","scenario":sc.to_json(),"choices":choices,"bound":d}),
                );
                if kind == "panic" {
                    // The runtime was torn down by a panic. Don't trust this
                    // process for further scenarios.
                    rep.cap("shard stopped after a panic inside the explored code");
                    break 'outer;
                }
                break;
            }
            last = Some((d, ex.executions, ex.steps, ex.max_steps, ex.max_points));
        }
        if let Some((d, e, s, ms, mp)) = last {
            completed_bound.push(json!({"scenario": sc.to_json(), "bound_completed": d, "executions_at_bound": e,
                "scheduling_points": s, "longest_execution": ms, "max_choice_points": mp}));
            if rep.samples.len() < 4 {
                rep.sample(json!({"scenario": sc.to_json(), "bound": d, "executions": e}));
            }
        }
    }
    rep.set("scenarios", json!(completed_bound));
    rep.set("max_deviation_bound", json!(dmax));
    rep.emit();
}
