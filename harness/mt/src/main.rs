//! Interleaving engine: deviation-bounded DFS over schedules of the real
//! stream / runner code on shuttle (C03, C04, C05, C07).
mod dfs;
mod graphs;
mod streams;

use serde_json::{Value, json};
use vcommon::*;

use graphs::RunParams;
use streams::{EosParams, PcParams};
use vcommon::graphs::{GraphSpec, Shape, Stage};

#[derive(Clone, Debug)]
pub enum Scenario {
    Pc(PcParams),
    Eos(EosParams),
    MtResult(GraphSpec, u32),
    Run(RunParams),
}

impl Scenario {
    fn to_json(&self) -> Value {
        match self {
            Scenario::Pc(p) => p.to_json(),
            Scenario::Eos(p) => p.to_json(),
            Scenario::MtResult(g, d) => {
                let mut v = g.to_json();
                v["scenario"] = json!("mtresult");
                v["dmax"] = json!(d);
                v
            }
            Scenario::Run(p) => p.to_json(),
        }
    }
    fn from_json(v: &Value) -> Self {
        match v["scenario"].as_str().unwrap() {
            "pc" => Scenario::Pc(PcParams::from_json(v)),
            "eos" => Scenario::Eos(EosParams::from_json(v)),
            "mtresult" => Scenario::MtResult(GraphSpec::from_json(v), v["dmax"].as_u64().unwrap_or(1) as u32),
            "run" => Scenario::Run(RunParams::from_json(v)),
            s => panic!("unknown scenario {s}"),
        }
    }
    fn subject(&self) -> String {
        match self {
            Scenario::Pc(_) => "producer-consumer".into(),
            Scenario::Eos(p) => p.kind.clone(),
            Scenario::MtResult(g, _) => match &g.shape {
                Shape::Chain(st) => format!("chain{:?}", st).replace(' ', ""),
                Shape::Tee(..) => "tee".into(),
                Shape::Diamond(..) => "diamond".into(),
                Shape::Merge(_) => "merge".into(),
                Shape::Packets(_) | Shape::PacketsTail(..) => "packets".into(),
                Shape::ToFile => "filesink".into(),
                Shape::VecPackets(_) => "vecpackets".into(),
            },
            Scenario::Run(p) => format!("{}-{}", p.kind, p.runner),
        }
    }
    /// Deviation bound for this scenario, if it has its own.
    fn dmax(&self) -> Option<u32> {
        match self {
            Scenario::MtResult(_, d) => Some(*d),
            // Long scripts (seven or more commit/consume steps in all) stay at
            // two deviations: at three, one ten-step scenario alone is ten
            // million executions.
            Scenario::Pc(p) if p.wscript.len() + p.rscript.len() >= 7 => Some(2),
            // One designated scenario goes to three deviations in every tier
            // (a stale store published after an unlock needs three switches
            // to be read back by the other side).
            Scenario::Pc(p) if p.cap == 2 && !p.tagged && !p.wneed_full && p.wscript == [1, 1, 1] && p.rscript == [1, 2] => Some(3),
            _ => None,
        }
    }
    fn run(&self) {
        match self {
            Scenario::Pc(p) => streams::pc_scenario(p),
            Scenario::Eos(p) => streams::eos_scenario(p),
            Scenario::MtResult(g, _) => graphs::mt_result_scenario(g),
            Scenario::Run(p) => graphs::run_scenario(p),
        }
    }
}

fn perms(n: usize) -> Vec<Vec<usize>> {
    fn rec(cur: &mut Vec<usize>, used: &mut Vec<bool>, n: usize, out: &mut Vec<Vec<usize>>) {
        if cur.len() == n {
            out.push(cur.clone());
            return;
        }
        for i in 0..n {
            if !used[i] {
                used[i] = true;
                cur.push(i);
                rec(cur, used, n, out);
                cur.pop();
                used[i] = false;
            }
        }
    }
    let mut out = vec![];
    rec(&mut vec![], &mut vec![false; n], n, &mut out);
    out
}

/// A few add orders: identity, reversed, and rotations.
fn some_orders(n: usize) -> Vec<Vec<usize>> {
    let id: Vec<usize> = (0..n).collect();
    let mut v = vec![id.clone(), id.iter().rev().copied().collect()];
    let mut r = id.clone();
    r.rotate_left(1);
    v.push(r);
    let mut r = id.clone();
    r.rotate_right(1);
    r.swap(0, n - 1);
    if !v.contains(&r) {
        v.push(r);
    }
    v
}

fn c05_scenarios(thorough: bool) -> Vec<Scenario> {
    let mut v = Vec::new();
    let stages = [
        Stage::AddConst(1),
        Stage::Skip(1),
        Stage::Resamp(2, 1),
        Stage::Resamp(1, 2),
        Stage::MoveWait,
        Stage::SyncId,
    ];
    let d_all = if thorough { 2 } else { 1 };
    for per_page in [1usize, 2] {
        let cap = per_page;
        let lens: Vec<usize> = if thorough {
            vec![0, 1, cap, cap + 1, 2 * cap + 1]
        } else {
            vec![0, 1, cap + 1, 2 * cap + 1]
        };
        for st in &stages {
            for &len in &lens {
                let orders = if thorough { perms(3) } else { some_orders(3) };
                for order in orders {
                    v.push(Scenario::MtResult(
                        GraphSpec {
                            shape: Shape::Chain(vec![st.clone()]),
                            per_page,
                            pages: 1,
                            src_len: len,
                            order,
                            file_repeat: 0,
 vec_repeat: 0,
                        },
                        d_all,
                    ));
                }
            }
        }
        // Tee to two sinks.
        for &len in &lens {
            let orders = if thorough { perms(4) } else { some_orders(4) };
            for order in orders {
                v.push(Scenario::MtResult(
                    GraphSpec {
                        shape: Shape::Tee(None, None),
                        per_page,
                        pages: 1,
                        src_len: len,
                        order,
                        file_repeat: 0,
 vec_repeat: 0,
                    },
                    1,
                ));
            }
        }
    }
    // Two-page streams, and the packet stage: fewer configurations.
    for order in some_orders(3) {
        v.push(Scenario::MtResult(
            GraphSpec {
                shape: Shape::Chain(vec![Stage::AddConst(1)]),
                per_page: 1,
                pages: 2,
                src_len: 5,
                order,
                file_repeat: 0,
 vec_repeat: 0,
            },
            d_all,
        ));
    }
    // Packets into VecToStream: the last packet must not be lost when the
    // sink is behind and the packet source has already gone away.
    for sizes in [vec![2usize, 2], vec![1, 2], vec![2, 1, 2]] {
        for order in some_orders(3) {
            v.push(Scenario::MtResult(
                GraphSpec {
                    shape: Shape::VecPackets(sizes.clone()),
                    per_page: 2,
                    pages: 1,
                    src_len: 0,
                    order,
                    file_repeat: 0,
 vec_repeat: 0,
                },
                if thorough { 2 } else { 1 },
            ));
        }
    }
    v.push(Scenario::MtResult(
        GraphSpec {
            shape: Shape::VecPackets(vec![2, 2]),
            per_page: 2,
            pages: 1,
            src_len: 0,
            order: vec![0, 1, 2],
            file_repeat: 0,
 vec_repeat: 0,
        },
        2,
    ));
    // A windowed consumer (the real FirFilter) on streams large enough for a
    // call to be limited by output room rather than by input; and the tail
    // countdown of StreamToPdu across chunk boundaries.
    for (len, order) in [(6usize, vec![0usize, 1, 2]), (9, vec![2, 1, 0]), (9, vec![0, 1, 2])] {
        v.push(Scenario::MtResult(
            GraphSpec {
                shape: Shape::Chain(vec![Stage::Fir(2)]),
                per_page: 4,
                pages: 1,
                src_len: len,
                order,
                file_repeat: 0,
                vec_repeat: 0,
            },
            1,
        ));
    }
    for (k, tail, len, per_page) in [(1usize, 1usize, 9usize, 2usize), (2, 1, 11, 4)] {
        for order in [vec![0usize, 1, 2, 3, 4], vec![4, 3, 2, 1, 0]] {
            v.push(Scenario::MtResult(
                GraphSpec {
                    shape: Shape::PacketsTail(k, tail),
                    per_page,
                    pages: 1,
                    src_len: len,
                    order,
                    file_repeat: 0,
                    vec_repeat: 0,
                },
                1,
            ));
        }
    }
    // Two sources into a two-input block.
    for (len, other) in [(2usize, 2usize), (3, 1)] {
        for order in some_orders(4) {
            v.push(Scenario::MtResult(
                GraphSpec {
                    shape: Shape::Merge(other),
                    per_page: 1,
                    pages: 1,
                    src_len: len,
                    order,
                    file_repeat: 0,
                    vec_repeat: 0,
                },
                1,
            ));
        }
    }
    // Delay, now that it is repaired.
    for len in [1usize, 3] {
        for order in some_orders(3) {
            v.push(Scenario::MtResult(
                GraphSpec {
                    shape: Shape::Chain(vec![Stage::Delay(1)]),
                    per_page: 1,
                    pages: 1,
                    src_len: len,
                    order,
                    file_repeat: 0,
 vec_repeat: 0,
                },
                1,
            ));
        }
    }
    // Designated deep runs: capacity-1 chains at a higher bound.
    for (st, len) in [(Stage::AddConst(1), 3usize), (Stage::MoveWait, 2)] {
        v.push(Scenario::MtResult(
            GraphSpec {
                shape: Shape::Chain(vec![st]),
                per_page: 1,
                pages: 1,
                src_len: len,
                order: vec![0, 1, 2],
                file_repeat: 0,
 vec_repeat: 0,
            },
            d_all + 1,
        ));
    }
    v
}

fn c07_scenarios(thorough: bool) -> Vec<Scenario> {
    let mut v = Vec::new();
    for runner in ["mt", "st"] {
        for (infinite, len) in [(true, 0usize), (false, 3), (false, 0)] {
            v.push(Scenario::Run(RunParams {
                kind: "cancel".into(),
                runner: runner.into(),
                infinite,
                src_len: len,
                fail_block: 0,
                fail_call: 0,
                cancel_early: false,
            }));
        }
        v.push(Scenario::Run(RunParams {
            kind: "cancel".into(),
            runner: runner.into(),
            infinite: true,
            src_len: 0,
            fail_block: 0,
            fail_call: 0,
            cancel_early: true,
        }));
        // (The fourth call of a block after a five-sample source is the one
        // right after its input has ended and drained; likewise the third
        // after a two-sample source.)
        for fail_block in 1..3 {
            for (len, fail_call) in [(5usize, 4usize), (2, 3), (2, 2)] {
                v.push(Scenario::Run(RunParams {
                    kind: "fail".into(),
                    runner: runner.into(),
                    infinite: false,
                    src_len: len,
                    fail_block,
                    fail_call,
                    cancel_early: false,
                }));
            }
        }
        for fail_block in 0..3 {
            for fail_call in 1..=3 {
                for (infinite, len) in [(true, 0usize), (false, 5)] {
                    v.push(Scenario::Run(RunParams {
                        kind: "fail".into(),
                        runner: runner.into(),
                        infinite,
                        src_len: len,
                        fail_block,
                        fail_call,
                        cancel_early: false,
                    }));
                }
            }
        }
    }
    // Sources that answer Again (not a wait) between cancel checks.
    for runner in ["mt", "st"] {
        v.push(Scenario::Run(RunParams {
            kind: "cancel".into(),
            runner: runner.into(),
            infinite: true,
            src_len: 7777, // marker: AgainSource
            fail_block: 0,
            fail_call: 0,
            cancel_early: false,
        }));
    }
    // An output that no block reads: held by the application, full, never
    // closed. Cancellation must still get every block out of its wait.
    for runner in ["mt", "st"] {
        for cancel_early in [false, true] {
            v.push(Scenario::Run(RunParams {
                kind: "cancel-held".into(),
                runner: runner.into(),
                infinite: true,
                src_len: 0,
                fail_block: 0,
                fail_call: 0,
                cancel_early,
            }));
        }
    }
    // A source that has nothing yet and says Pending: the runners poll it.
    for runner in ["mt", "st"] {
        v.push(Scenario::Run(RunParams {
            kind: "cancel".into(),
            runner: runner.into(),
            infinite: true,
            src_len: 8888, // marker: PendingSource
            fail_block: 0,
            fail_call: 0,
            cancel_early: false,
        }));
    }
    // A failure must be reported also when cancellation races with it.
    for runner in ["mt", "st"] {
        for fail_block in 0..3 {
            for fail_call in 1..=2 {
                v.push(Scenario::Run(RunParams {
                    kind: "failcancel".into(),
                    runner: runner.into(),
                    infinite: true,
                    src_len: 0,
                    fail_block,
                    fail_call,
                    cancel_early: false,
                }));
            }
        }
    }
    let _ = thorough;
    v
}

/// Can the two scripts complete at all on a buffer of this capacity? (A
/// writer needing 2 free slots facing a reader needing 2 samples, with 1
/// buffered, is a deadlock of the *program*, not of the stream.)
fn feasible(cap: usize, w: &[usize], r: &[usize]) -> bool {
    let (mut wi, mut ri, mut used) = (0, 0, 0usize);
    loop {
        if wi == w.len() && ri == r.len() {
            return true;
        }
        let mut moved = false;
        if wi < w.len() && cap - used >= w[wi] {
            used += w[wi];
            wi += 1;
            moved = true;
        }
        if ri < r.len() && used >= r[ri] {
            used -= r[ri];
            ri += 1;
            moved = true;
        }
        if !moved {
            return false;
        }
    }
}

fn c03_scenarios(thorough: bool) -> Vec<Scenario> {
    let mut v = Vec::new();
    let ns: &[usize] = if thorough { &[3, 4] } else { &[3] };
    let caps: &[usize] = if thorough { &[1, 2, 4] } else { &[1, 2] };
    for &cap in caps {
        for &n in ns {
            // (Capacity 4 with four samples is 64 script pairs of its own:
            // three samples there.)
            if cap == 4 && n == 4 {
                continue;
            }
            let comps = compositions(n, cap);
            for w in &comps {
                for r in &comps {
                    if !feasible(cap, w, r) {
                        continue;
                    }
                    for (wf, rf) in [(false, false), (true, true)] {
                        if cap == 1 && wf {
                            continue; // need is 1 either way
                        }
                        v.push(Scenario::Pc(PcParams {
                            cap,
                            pages: 1,
                            wscript: w.clone(),
                            rscript: r.clone(),
                            wneed_full: wf,
                            rneed_full: rf,
                            hold: true,
                            tagged: false,
                            ignore_tags: false,
                        }));
                    }
                }
            }
        }
    }
    // Two-page stream with the capacity-1 element: capacity 2, different
    // geometry.
    v.push(Scenario::Pc(PcParams {
        cap: 1,
        pages: 2,
        wscript: vec![2, 1],
        rscript: vec![1, 2],
        wneed_full: false,
        rneed_full: false,
        hold: true,
        tagged: false,
        ignore_tags: false,
    }));
    // The same loops over a stream that carries tags: commit and consume take
    // other paths then. The tags themselves are C02's business.
    let mut extra = Vec::new();
    for s in &v {
        if let Scenario::Pc(p) = s {
            if p.cap >= 2 && !p.wneed_full {
                let mut q = p.clone();
                q.tagged = true;
                q.ignore_tags = true;
                extra.push(Scenario::Pc(q));
            }
        }
    }
    v.extend(extra);
    v
}

/// C02 under concurrency: the C03 scenarios with a tag on every sample.
fn c02_scenarios(thorough: bool) -> Vec<Scenario> {
    c03_scenarios(thorough)
        .into_iter()
        .filter_map(|s| match s {
            Scenario::Pc(mut p) => {
                if p.wneed_full || p.tagged {
                    return None;
                }
                // (Tagged executions cost more per step: five-sample scripts
                // are left to C03.)
                if p.wscript.iter().sum::<usize>() > 4 {
                    return None;
                }
                p.tagged = true;
                Some(Scenario::Pc(p))
            }
            _ => None,
        })
        .collect()
}

fn c04_scenarios(_thorough: bool) -> Vec<Scenario> {
    let mut v = Vec::new();
    for kind in ["reader", "reader-eof", "nc-reader", "nc-reader-eof"] {
        for j in 0..=2 {
            for need in 1..=2 {
                for backlog in 0..=1 {
                    v.push(Scenario::Eos(EosParams {
                        kind: kind.into(),
                        j,
                        need,
                        backlog,
                    }));
                }
            }
        }
    }
    // Requests larger than the stream can ever hold (capacity 2): only the
    // peer's departure can end such a wait.
    for kind in ["reader", "reader-eof"] {
        for (j, backlog) in [(0usize, 0usize), (1, 0), (2, 0), (0, 1), (1, 1)] {
            v.push(Scenario::Eos(EosParams {
                kind: kind.into(),
                j,
                need: 3,
                backlog,
            }));
        }
    }
    for j in 0..=2 {
        v.push(Scenario::Eos(EosParams {
            kind: "writer".into(),
            j,
            need: 3,
            backlog: 0,
        }));
    }
    for j in 0..=2 {
        for need in 1..=2 {
            v.push(Scenario::Eos(EosParams {
                kind: "writer".into(),
                j,
                need,
                backlog: 0,
            }));
        }
    }
    // The block-level form: the runner's per-block loop on a source -> sink
    // graph must not turn "the writer is gone" into "nothing more to read".
    for (per_page, len) in [(1usize, 1usize), (1, 2), (2, 2), (2, 3)] {
        for order in [vec![0usize, 1], vec![1, 0]] {
            v.push(Scenario::MtResult(
                GraphSpec {
                    shape: Shape::Chain(vec![]),
                    per_page,
                    pages: 1,
                    src_len: len,
                    order,
                    file_repeat: 0,
 vec_repeat: 0,
                },
                2,
            ));
        }
    }
    v.push(Scenario::Eos(EosParams {
        kind: "nc-writer".into(),
        j: 0,
        need: 1,
        backlog: 0,
    }));
    v
}

/// C17 under threads: a source thread commits while the file sink's thread is
/// inside work(). Whatever the sink consumed has to be in the file.
fn c17_scenarios(thorough: bool) -> Vec<Scenario> {
    let mut v = Vec::new();
    // (A repeating source commits one repetition per call: the stream then
    // has room left while the sink is at work.)
    for (per_page, len, vec_repeat) in [(1usize, 3usize, 0u64), (2, 3, 0), (2, 5, 0), (4, 9, 0), (2, 1, 3), (4, 1, 4), (4, 2, 3)] {
        for order in [vec![0usize, 1], vec![1, 0]] {
            v.push(Scenario::MtResult(
                GraphSpec {
                    shape: Shape::ToFile,
                    per_page,
                    pages: 1,
                    src_len: len,
                    order,
                    file_repeat: 0,
                    vec_repeat,
                },
                if thorough { 3 } else { 2 },
            ));
        }
    }
    v
}

/// C12 under threads: marker tags through one-to-one blocks on the
/// multithreaded runner (the tag comparison is part of every MtResult run).
fn c12_scenarios(thorough: bool) -> Vec<Scenario> {
    let mut v = Vec::new();
    for st in [Stage::AddConst(1), Stage::SyncId, Stage::MoveWait] {
        for (per_page, len, vec_repeat) in [(1usize, 2usize, 0u64), (2, 3, 0), (2, 1, 3)] {
            for order in [vec![0usize, 1, 2], vec![2, 1, 0]] {
                v.push(Scenario::MtResult(
                    GraphSpec {
                        shape: Shape::Chain(vec![st.clone()]),
                        per_page,
                        pages: 1,
                        src_len: len,
                        order,
                        file_repeat: 0,
                        vec_repeat,
                    },
                    if thorough { 2 } else { 1 },
                ));
            }
        }
    }
    v
}

fn scenarios(prop: &str, thorough: bool) -> Vec<Scenario> {
    match prop {
        "C12" => c12_scenarios(thorough),
        "C17" | "C14" => c17_scenarios(thorough),
        "C02" => c02_scenarios(thorough),
        "C03" => c03_scenarios(thorough),
        "C04" => c04_scenarios(thorough),
        "C05" => c05_scenarios(thorough),
        "C07" => c07_scenarios(thorough),
        _ => vec![],
    }
}

fn max_bound(prop: &str, thorough: bool) -> u32 {
    match (prop, thorough) {
        ("C02", false) => 2,
        ("C02", true) => 3,
        ("C03", false) => 2,
        ("C03", true) => 3,
        ("C04", false) => 2,
        ("C04", true) => 3,
        ("C07", false) => 2,
        ("C07", true) => 3,
        (_, false) => 1,
        (_, true) => 2,
    }
}

/// Do non-preemptive alternatives cost a deviation? Only for the runner
/// scenarios, whose executions are long (see dfs::Search::free_alt_cost).
fn free_alt_cost(sc: &Scenario) -> u8 {
    match sc {
        Scenario::Pc(_) | Scenario::Eos(_) => 0,
        Scenario::MtResult(..) | Scenario::Run(_) => 1,
    }
}

struct Ctx {
    rep: Report,
    prop: String,
    scenario: Value,
    subject: String,
    bound: u32,
    replay_mode: bool,
    executions_before: u64,
}

static CTX: std::sync::Mutex<Option<Ctx>> = std::sync::Mutex::new(None);

fn install_fatal_handler() {
    *dfs::ON_FATAL.lock().unwrap() = Some(Box::new(|kind, msg, choices| {
        let _ = std::fs::remove_file(vcommon::graphs::tofile_path());
        let mut g = CTX.lock().unwrap_or_else(|e| e.into_inner());
        let ctx = g.as_mut().expect("fatal outside exploration");
        if ctx.replay_mode {
            println!("replay: VIOLATION reproduced: [{kind}] {msg}");
            use std::io::Write;
            let _ = std::io::stdout().flush();
            std::process::exit(1);
        }
        let sig = format!("{}/{}/{kind}", ctx.prop, ctx.subject);
        ctx.rep.violation(
            sig,
            format!("{} at deviation bound {}: {msg}", ctx.scenario, ctx.bound),
            json!({"engine":"mt","bin":"vmt","scenario":ctx.scenario,"choices":choices,"bound":ctx.bound}),
        );
        ctx.rep.emit();
        use std::io::Write;
        let _ = std::io::stdout().flush();
        std::process::exit(0);
    }));
    // A panic that nobody is prepared to catch is a violation found in the
    // explored code ("never a panic"), reported at the point where it happens.
    std::panic::set_hook(Box::new(|info| {
        if vcommon::in_catch() {
            return;
        }
        let msg = format!("{info}");
        match dfs::current_choices() {
            Some(c) => dfs::fatal("panic", &msg, c),
            None => {
                eprintln!("machinery panic: {msg}");
                std::process::exit(3);
            }
        }
    }));
}

fn main() {
    let args: Vec<String> = std::env::args().collect();
    if args.len() >= 3 && args[1] == "replay" {
        let txt = std::fs::read_to_string(&args[2]).expect("read replay file");
        let v: Value = serde_json::from_str(&txt).expect("parse replay file");
        let sc = Scenario::from_json(&v["replay"]["scenario"]);
        let choices: Vec<u32> = v["replay"]["choices"]
            .as_array()
            .unwrap()
            .iter()
            .map(|x| x.as_u64().unwrap() as u32)
            .collect();
        *CTX.lock().unwrap() = Some(Ctx {
            rep: Report::new("", "mt"),
            prop: String::new(),
            scenario: sc.to_json(),
            subject: sc.subject(),
            bound: 0,
            replay_mode: true,
            executions_before: 0,
        });
        install_fatal_handler();
        let sc2 = sc.clone();
        let ex = dfs::explore(u32::MAX, free_alt_cost(&sc), Some(choices), 1, move || sc2.run());
        if let Some(e) = ex.machinery_error {
            println!("replay: machinery error: {e}");
            std::process::exit(3);
        }
        println!("replay: no violation");
        std::process::exit(0);
    }
    if args.len() >= 4 && args[1] == "count" {
        println!("{}", scenarios(&args[2], args[3] == "thorough").len());
        return;
    }
    if args.len() < 3 {
        eprintln!("usage: vmt <property> <tier> [shard/nshards] | vmt count <property> <tier> | vmt replay <file>");
        std::process::exit(3);
    }
    let prop = args[1].clone();
    let thorough = args[2] == "thorough";
    let (shard, nshards) = match args.get(3) {
        Some(s) => {
            let (a, b) = s.split_once('/').unwrap();
            (a.parse::<usize>().unwrap(), b.parse::<usize>().unwrap())
        }
        None => (0, 1),
    };
    let mut rep = Report::new(&prop, "mt");
    rep.rule = "executions of the real code under a controlled scheduler (shuttle runtime, own deviation-bounded DFS): \
        every interleaving at lock / unlock / after-unlock / wait / notify / spawn / join points with at most d deviations \
        (preemptions, early timeouts; for runner scenarios also non-default picks at blocking points), d iterated from 0; \
        each execution is one case; distinct_nontrivial counts executions with at least one deviation from the default schedule"
        .into();
    rep.assumptions = vec![
        "sample memory is touched only through window slices, so window disjointness (monitored) stands in for a data-race detector".into(),
        "hardware memory ordering weaker than sequential consistency at mutex boundaries is not modelled".into(),
        "timeouts may fire at any scheduling point (cost 1) or when nothing else can run (free, longest waiter first)".into(),
    ];
    let scs = scenarios(&prop, thorough);
    let dmax = max_bound(&prop, thorough);
    let max_exec: u64 = if thorough { 50_000_000 } else { 3_000_000 };
    install_fatal_handler();
    let mut completed = vec![];
    for (i, sc) in scs.iter().enumerate() {
        if i % nshards != shard {
            continue;
        }
        let mut last = None;
        for d in 0..=sc.dmax().unwrap_or(dmax) {
            *CTX.lock().unwrap() = Some(Ctx {
                rep: std::mem::replace(&mut rep, Report::new(&prop, "mt")),
                prop: prop.clone(),
                scenario: sc.to_json(),
                subject: sc.subject(),
                bound: d,
                replay_mode: false,
                executions_before: 0,
            });
            let sc2 = sc.clone();
            let ex = dfs::explore(d, free_alt_cost(sc), None, max_exec, move || sc2.run());
            rep = CTX.lock().unwrap().take().unwrap().rep;
            rep.evaluations += ex.executions;
            rep.transitions += ex.steps;
            rep.states += ex.steps;
            rep.traces_validated += ex.executions;
            if d > 0 {
                rep.distinct_nontrivial += ex.executions.saturating_sub(1);
            }
            if let Some(e) = &ex.machinery_error {
                eprintln!("machinery error in {} at bound {d}: {e}", sc.to_json());
                std::process::exit(3);
            }
            if ex.capped {
                rep.cap(format!("{} bound {d}: execution cap {max_exec} reached", sc.to_json()));
            }
            last = Some((d, ex.executions, ex.steps, ex.max_steps, ex.max_points));
        }
        if let Some((d, e, s, ms, mp)) = last {
            completed.push(json!({"scenario": sc.to_json(), "bound_completed": d, "executions_at_bound": e,
                "scheduling_points": s, "longest_execution": ms, "max_choice_points": mp}));
            if rep.samples.len() < 4 {
                rep.sample(json!({"scenario": sc.to_json(), "bound": d, "executions": e}));
            }
        }
    }
    rep.set("scenarios", json!(completed));
    rep.set("max_deviation_bound", json!(dmax));
    let _ = std::fs::remove_file(vcommon::graphs::tofile_path());
    rep.emit();
}
