//! Scenarios on the runners: MTGraph result/termination (C05), cancellation
//! and failure reporting on both runners (C07).
use std::sync::Arc;
use std::sync::atomic::{AtomicBool, AtomicUsize, Ordering};

use rustradio::block::Block;
use rustradio::blocks::*;
use rustradio::graph::{Graph, GraphRunner};
use rustradio::mtgraph::MTGraph;
use rustradio::verif;
use serde_json::{Value, json};
use shuttle::thread;
use vcommon::graphs::*;
use vcommon::*;

use crate::dfs::{self, DONE, PROGRESS, violate};

fn setup(pages: usize) {
    verif::clear_stream_specs();
    verif::set_default_stream_size(Some(pages * PAGE));
    verif::take_overlaps();
}

fn finish(clock: thread::JoinHandle<()>) {
    DONE.store(true, Ordering::SeqCst);
    let _ = clock.join();
    let ov = verif::take_overlaps();
    if !ov.is_empty() {
        violate("window-overlap", format!("{:?}", ov[0]));
    }
}

/// C05: run the graph on MTGraph, compare every sink with the expectation.
pub fn mt_result_scenario(g: &GraphSpec) {
    match g.per_page {
        1 => mt_result_typed::<Big4096>(g),
        2 => mt_result_typed::<Big2048>(g),
        _ => mt_result_typed::<Big1024>(g),
    }
}

fn mt_result_typed<T: BigT>(g: &GraphSpec) {
    setup(g.pages);
    let clock = thread::spawn(dfs::clock_body);
    let built = build::<T>(g);
    let Built { blocks, sinks } = built;
    let mut slots: Vec<Option<Box<dyn Block + Send>>> = blocks.into_iter().map(Some).collect();
    let mut graph = MTGraph::new();
    for &i in &g.order {
        graph.add(slots[i].take().unwrap());
    }
    let r = catch(|| graph.run());
    match r {
        Err(p) => violate("run-panicked", format!("MTGraph::run panicked: {p}")),
        Ok(Err(e)) => violate("run-failed", format!("MTGraph::run returned an error: {e}")),
        Ok(Ok(())) => {
            let got: Vec<Vec<u64>> = sinks
                .iter()
                .map(|h| h.data().samples().iter().map(|s| s.val()).collect())
                .collect();
            let want = g.expected();
            if got != want {
                violate(
                    "wrong-result",
                    format!("sinks hold {got:?}, reference result is {want:?}"),
                );
            }
            if sinks.iter().any(|h| h.data().samples().iter().any(|s| *s != T::from(s.val()))) {
                violate("torn-sample", "a sink holds a torn sample".into());
            }
            // Tags: the vector source marks the first sample of every
            // repetition; stages that map sample i to sample i carry them
            // along. Every sink must have received exactly those, once each.
            let one_to_one = |st: &Stage| matches!(st, Stage::AddConst(_) | Stage::XorConst(_) | Stage::MulConst(_) | Stage::MoveWait | Stage::SyncId);
            let tag_shape = match &g.shape {
                Shape::Chain(st) => st.iter().all(one_to_one),
                Shape::Tee(None, None) => true,
                _ => false,
            };
            if tag_shape && g.file_repeat == 0 && g.src_len > 0 {
                // (VectorSink records tags with the position they had in the
                // window it read them from, so positions cannot be compared
                // here: which tags arrive, and how often, can.)
                let reps = g.vec_repeat.max(1) as usize;
                let mut want: Vec<String> = vec![];
                for k in 0..reps {
                    want.push("VectorSource::start=Bool(true)".into());
                    want.push(format!("VectorSource::repeat=U64({k})"));
                }
                want.push("VectorSource::first=Bool(true)".into());
                want.sort();
                for (j, h) in sinks.iter().enumerate() {
                    let mut got: Vec<String> = h.data().tags().iter().map(|t| format!("{}={:?}", t.key(), t.val())).collect();
                    got.sort();
                    if got != want {
                        violate("tags-differ", format!("sink {j} holds tags {got:?}, the source's markers are {want:?}"));
                    }
                }
            }
            if g.shape == Shape::ToFile {
                // Everything the source emitted was consumed by the sink: it
                // has to be in the file (serialised as the value, 8 bytes LE).
                let bytes = std::fs::read(tofile_path()).unwrap_or_default();
                let got: Vec<u64> = bytes.chunks(8).map(|c| {
                    let mut a = [0u8; 8];
                    a[..c.len()].copy_from_slice(c);
                    u64::from_le_bytes(a)
                }).collect();
                let want = g.source_data();
                if bytes.len() % 8 != 0 || got != want {
                    violate(
                        "file-differs",
                        format!("run() returned; the file holds {} bytes = {got:?}, the stream was {want:?}", bytes.len()),
                    );
                }
            }
        }
    }
    drop(graph);
    finish(clock);
}

/// C07 parameters.
#[derive(Clone, Debug)]
pub struct RunParams {
    /// "cancel" or "fail".
    pub kind: String,
    /// "mt" or "st".
    pub runner: String,
    /// Infinite source?
    pub infinite: bool,
    pub src_len: usize,
    /// For "fail": which block (topological index) fails, on which call.
    pub fail_block: usize,
    pub fail_call: usize,
    /// Cancel before run() starts.
    pub cancel_early: bool,
}

impl RunParams {
    pub fn to_json(&self) -> Value {
        json!({"scenario":"run","kind":self.kind,"runner":self.runner,"infinite":self.infinite,
            "src_len":self.src_len,"fail_block":self.fail_block,"fail_call":self.fail_call,
            "cancel_early": self.cancel_early})
    }
    pub fn from_json(v: &Value) -> Self {
        Self {
            kind: v["kind"].as_str().unwrap().into(),
            runner: v["runner"].as_str().unwrap().into(),
            infinite: v["infinite"].as_bool().unwrap(),
            src_len: v["src_len"].as_u64().unwrap() as usize,
            fail_block: v["fail_block"].as_u64().unwrap() as usize,
            fail_call: v["fail_call"].as_u64().unwrap() as usize,
            cancel_early: v["cancel_early"].as_bool().unwrap_or(false),
        }
    }
}

type T2 = Big2048;

pub fn run_scenario(p: &RunParams) {
    setup(1);
    let clock = thread::spawn(dfs::clock_body);
    // source -> AddConst -> sink
    let epoch = Arc::new(AtomicBool::new(false));
    let mut blocks: Vec<Box<dyn Block + Send>> = Vec::new();
    let mut counters = Vec::new();
    let alive = Arc::new(AtomicUsize::new(0));
    let wrap = |b: Box<dyn Block + Send>, idx: usize, counters: &mut Vec<(Arc<AtomicUsize>, Arc<AtomicUsize>)>| -> Box<dyn Block + Send> {
        let calls = Arc::new(AtomicUsize::new(0));
        let late = Arc::new(AtomicUsize::new(0));
        counters.push((calls.clone(), late.clone()));
        alive.fetch_add(1, Ordering::SeqCst);
        Box::new(Instrumented {
            alive: alive.clone(),
            inner: b,
            calls,
            late_calls: late,
            epoch: epoch.clone(),
            fail_on: if p.kind.starts_with("fail") && p.fail_block == idx { Some(p.fail_call) } else { None },
        })
    };
    let prev = if p.infinite && p.src_len == 8888 {
        let (s, o) = PendingSource::<T2>::new();
        blocks.push(wrap(Box::new(s), 0, &mut counters));
        o
    } else if p.infinite && p.src_len == 7777 {
        let (s, o) = AgainSource::new(T2::from(5));
        blocks.push(wrap(Box::new(s), 0, &mut counters));
        o
    } else if p.infinite {
        let (s, o) = ConstantSource::new(T2::from(5));
        blocks.push(wrap(Box::new(s), 0, &mut counters));
        o
    } else {
        let data: Vec<T2> = (0..p.src_len as u64).map(|i| T2::from(10 + i)).collect();
        let (s, o) = VectorSource::new(data);
        blocks.push(wrap(Box::new(s), 0, &mut counters));
        o
    };
    let (a, prev) = AddConst::new(prev, T2::from(1));
    blocks.push(wrap(Box::new(a), 1, &mut counters));
    // "cancel-held": the last output is not connected to a block; the
    // application holds it and does not read, so it fills up and never closes.
    let mut held = None;
    if p.kind == "cancel-held" {
        held = Some(prev);
    } else {
        let sink = NullSink::new(prev);
        blocks.push(wrap(Box::new(sink), 2, &mut counters));
    }

    let returned = Arc::new(AtomicBool::new(false));
    if p.runner == "mt" {
        let mut graph = MTGraph::new();
        for b in blocks {
            graph.add(b);
        }
        run_and_judge(p, &mut graph, epoch.clone(), returned, &counters, Some(alive.clone()));
    } else {
        let mut graph = Graph::new();
        for b in blocks {
            graph.add(b);
        }
        run_and_judge(p, &mut graph, epoch.clone(), returned, &counters, None);
    }
    drop(held);
    finish(clock);
}

fn run_and_judge<G: GraphRunner>(
    p: &RunParams,
    graph: &mut G,
    epoch: Arc<AtomicBool>,
    returned: Arc<AtomicBool>,
    counters: &[(Arc<AtomicUsize>, Arc<AtomicUsize>)],
    alive: Option<Arc<AtomicUsize>>,
) {
    let mut canceller = None;
    if p.kind.starts_with("cancel") || p.kind == "failcancel" {
        let token = graph.cancel_token();
        if p.cancel_early {
            token.cancel();
            epoch.store(true, Ordering::SeqCst);
        } else {
            let ep = epoch.clone();
            let ret = returned.clone();
            let park_first = p.kind == "cancel-held";
            canceller = Some(thread::spawn(move || {
                // The scheduler decides when this runs: between any two steps
                // of any block thread.
                thread::yield_now();
                if park_first {
                    // Let (virtual) time pass first: by default the clock
                    // wakes this thread once every block thread is parked in
                    // a wait, which is the situation this scenario is about.
                    let m = rustradio::vsync::Mutex::new(());
                    let cv = rustradio::vsync::Condvar::new();
                    let _ = cv.wait_timeout_while(m.lock().unwrap(), std::time::Duration::from_secs(1), |_| true);
                }
                token.cancel();
                ep.store(true, Ordering::SeqCst);
                PROGRESS.fetch_add(1, Ordering::SeqCst);
                let _ = ret;
            }));
        }
    }
    let r = catch(|| graph.run());
    returned.store(true, Ordering::SeqCst);
    if let Some(c) = canceller {
        let _ = c.join();
    }
    // The multithreaded runner hands each block to its thread: a block that
    // still exists when run() has returned is a block thread that has not
    // finished.
    if let (Some(a), false) = (&alive, r.is_err()) {
        let n = a.load(Ordering::SeqCst);
        if n != 0 {
            violate(
                "threads-alive-after-return",
                format!("run() returned while {n} block thread(s) had not finished"),
            );
        }
    }
    match (p.kind.as_str(), r) {
        (_, Err(pn)) => violate("run-panicked", format!("run() panicked: {pn}")),
        ("cancel" | "cancel-held", Ok(Err(e))) => violate("run-failed", format!("run() returned an error after cancellation: {e}")),
        ("cancel" | "cancel-held", Ok(Ok(()))) => {
            for (i, (_, late)) in counters.iter().enumerate() {
                let l = late.load(Ordering::SeqCst);
                if l > 2 {
                    violate(
                        "late-work-calls",
                        format!("block {i} had {l} work() calls started after cancel() returned"),
                    );
                }
            }
        }
        ("fail" | "failcancel", Ok(Ok(()))) => {
            let reached = counters[p.fail_block].0.load(Ordering::SeqCst) >= p.fail_call;
            if reached {
                violate(
                    "failure-swallowed",
                    format!("block {} failed on call {} but run() returned Ok", p.fail_block, p.fail_call),
                );
            }
        }
        ("fail" | "failcancel", Ok(Err(e))) => {
            let s = format!("{e}");
            if !s.contains("injected failure") {
                violate("wrong-error", format!("run() returned a different error: {s}"));
            }
        }
        _ => {}
    }
}
