//! Scenarios on bare streams: producer/consumer (C03) and end-of-stream
//! decisions (C04).
use std::sync::Arc;
use std::sync::atomic::{AtomicBool, AtomicUsize, Ordering};

use rustradio::stream::{StreamWait, new_nocopy_stream, new_stream};
use rustradio::verif;
use serde_json::{Value, json};
use shuttle::thread;
use vcommon::*;

use crate::dfs::{self, DONE, PROGRESS, violate};

fn setup(pages: usize) {
    verif::clear_stream_specs();
    verif::set_default_stream_size(Some(pages * PAGE));
    verif::take_overlaps();
}

fn finish(clock: thread::JoinHandle<()>) {
    DONE.store(true, Ordering::SeqCst);
    let _ = clock.join();
    let ov = verif::take_overlaps();
    if !ov.is_empty() {
        violate(
            "window-overlap",
            format!("a live write window overlapped a live read window: {:?}", ov[0]),
        );
    }
}

/// C03: producer commits `wscript` parts, consumer consumes `rscript` parts.
#[derive(Clone, Debug)]
pub struct PcParams {
    pub cap: usize, // 1, 2 or 4 (element type)
    pub pages: usize,
    pub wscript: Vec<usize>,
    pub rscript: Vec<usize>,
    pub wneed_full: bool,
    pub rneed_full: bool,
    pub hold: bool,
    /// Every sample carries a tag with its serial number.
    pub tagged: bool,
    /// With `tagged`: do not judge the tags (C03 runs tagged streams for the
    /// code paths that only run with tags present, and leaves the tags
    /// themselves to C02).
    pub ignore_tags: bool,
}

impl PcParams {
    pub fn to_json(&self) -> Value {
        json!({"scenario":"pc","cap":self.cap,"pages":self.pages,"wscript":self.wscript,
            "rscript":self.rscript,"wneed_full":self.wneed_full,"rneed_full":self.rneed_full,"hold":self.hold,
            "tagged":self.tagged,"ignore_tags":self.ignore_tags})
    }
    pub fn from_json(v: &Value) -> Self {
        let us = |k: &str| v[k].as_u64().unwrap() as usize;
        let vs = |k: &str| -> Vec<usize> {
            v[k].as_array().unwrap().iter().map(|x| x.as_u64().unwrap() as usize).collect()
        };
        Self {
            cap: us("cap"),
            pages: us("pages"),
            wscript: vs("wscript"),
            rscript: vs("rscript"),
            wneed_full: v["wneed_full"].as_bool().unwrap(),
            rneed_full: v["rneed_full"].as_bool().unwrap(),
            hold: v["hold"].as_bool().unwrap(),
            tagged: v["tagged"].as_bool().unwrap_or(false),
            ignore_tags: v["ignore_tags"].as_bool().unwrap_or(false),
        }
    }
}

pub fn pc_scenario(p: &PcParams) {
    match p.cap {
        1 => pc_typed::<Big4096>(p),
        2 => pc_typed::<Big2048>(p),
        _ => pc_typed::<Big1024>(p),
    }
}

fn pc_typed<T: Elem>(p: &PcParams) {
    setup(p.pages);
    let clock = thread::spawn(dfs::clock_body);
    let (w, r) = new_stream::<T>();
    let cap = p.pages * PAGE / std::mem::size_of::<T>();
    let total: usize = p.wscript.iter().sum();
    assert_eq!(total, p.rscript.iter().sum::<usize>());
    let wscript = p.wscript.clone();
    let rscript = p.rscript.clone();
    let (wfull, rfull, hold) = (p.wneed_full, p.rneed_full, p.hold);
    let tagged = p.tagged;
    let check_tags = p.tagged && !p.ignore_tags;
    let reader_alive = Arc::new(AtomicBool::new(true));
    let writer_alive = Arc::new(AtomicBool::new(true));
    let (ra, wa) = (reader_alive.clone(), writer_alive.clone());
    let wt = thread::spawn(move || {
        let mut next = 1u64;
        for part in wscript {
            let mut spins = 0;
            loop {
                // Free space only grows while this (the only) writer looks on:
                // a window taken after the query offers at least that much.
                // (A scheduling point of its own before the query: the query
                // need not take the lock, and then has none.)
                thread::yield_now();
                let f = w.free();
                let mut wb = w.write_buf().unwrap();
                if wb.len() > cap {
                    violate("window-too-long", format!("write window of {} > capacity {cap}", wb.len()));
                    return;
                }
                if f > wb.len() {
                    violate("free-query", format!("free() said {f}, the write window taken right after has {}", wb.len()));
                    return;
                }
                if wb.len() >= part {
                    for i in 0..part {
                        wb.slice()[i] = T::from_serial(next + i as u64);
                    }
                    if hold {
                        thread::yield_now();
                    }
                    let tags: Vec<rustradio::stream::Tag> = if tagged {
                        (0..part)
                            .map(|i| {
                                rustradio::stream::Tag::new(i, "s", rustradio::stream::TagValue::U64(next + i as u64))
                            })
                            .collect()
                    } else {
                        vec![]
                    };
                    wb.produce(part, &tags);
                    next += part as u64;
                    break;
                }
                drop(wb);
                let need = if wfull { cap.min(part.max(1)) } else { part };
                let gone = w.wait_for_write(need);
                if gone && ra.load(Ordering::SeqCst) {
                    violate(
                        "writer-told-reader-gone",
                        "wait_for_write said the reader is gone while it is alive".into(),
                    );
                    return;
                }
                spins += 1;
                if spins > 64 {
                    violate("writer-starved", format!("no room for {part} after 64 waits"));
                    return;
                }
            }
        }
        wa.store(false, Ordering::SeqCst);
        drop(w);
        PROGRESS.fetch_add(1, Ordering::SeqCst);
    });
    let wa2 = writer_alive.clone();
    let rt = thread::spawn(move || {
        let mut next = 1u64;
        for part in rscript {
            let mut spins = 0;
            loop {
                let (rb, tags) = r.read_buf().unwrap();
                if check_tags {
                    let got: Vec<(usize, String)> =
                        tags.iter().map(|t| (t.pos(), format!("{}={:?}", t.key(), t.val()))).collect();
                    let want: Vec<(usize, String)> =
                        (0..rb.len()).map(|i| (i, format!("s=U64({})", next + i as u64))).collect();
                    if got != want {
                        violate(
                            "tags",
                            format!("read window of {} samples starting at serial {next} shows tags {got:?}, want {want:?}", rb.len()),
                        );
                    }
                }
                if rb.len() > cap {
                    violate("window-too-long", format!("read window of {} > capacity {cap}", rb.len()));
                    return;
                }
                if hold {
                    thread::yield_now();
                }
                // Whatever is visible must be the committed sequence.
                for (i, s) in rb.slice().iter().enumerate() {
                    let want = T::from_serial(next + i as u64);
                    if *s != want {
                        violate(
                            "content",
                            format!("reader saw {s:?} at offset {i}, want {want:?} (next serial {next})"),
                        );
                        return;
                    }
                }
                if rb.len() as u64 + next - 1 > total as u64 {
                    violate("content", format!("reader sees more than the {total} committed samples"));
                    return;
                }
                if rb.len() >= part {
                    rb.consume(part);
                    next += part as u64;
                    break;
                }
                drop(rb);
                let need = if rfull { cap.min(part.max(1)) } else { part };
                let never = r.wait_for_read(need);
                if never && wa2.load(Ordering::SeqCst) {
                    violate(
                        "reader-told-writer-gone",
                        "wait_for_read said the writer is gone while it is alive".into(),
                    );
                    return;
                }
                if never {
                    // Writer gone. All of it must still be there.
                    let (rb, _) = r.read_buf().unwrap();
                    if rb.len() >= need {
                        violate(
                            "wait-contradicts-commit",
                            format!("wait_for_read({need}) said 'never' with {} samples buffered: the wait is not atomic with the commit", rb.len()),
                        );
                    }
                    if (rb.len() as u64) < total as u64 - (next - 1) {
                        violate("lost-data", format!("writer gone, {} of {} remaining samples readable", rb.len(), total as u64 - (next - 1)));
                        return;
                    }
                }
                spins += 1;
                if spins > 64 {
                    violate("reader-starved", format!("no {part} samples after 64 waits"));
                    return;
                }
            }
        }
        reader_alive.store(false, Ordering::SeqCst);
        if next - 1 != total as u64 {
            violate("count", format!("reader got {} of {total}", next - 1));
        }
        drop(r);
        PROGRESS.fetch_add(1, Ordering::SeqCst);
    });
    wt.join().unwrap();
    rt.join().unwrap();
    finish(clock);
}

/// C04 scenarios.
#[derive(Clone, Debug)]
pub struct EosParams {
    /// "reader": writer commits `j` then drops, reader waits with `need`.
    /// "reader-eof": same but reader polls eof() instead of using wait's verdict.
    /// "writer": reader consumes `j` then drops, writer waits for space.
    /// "nc-reader", "nc-reader-eof": packet stream versions.
    pub kind: String,
    pub j: usize,
    pub need: usize,
    pub backlog: usize,
}

impl EosParams {
    pub fn to_json(&self) -> Value {
        json!({"scenario":"eos","kind":self.kind,"j":self.j,"need":self.need,"backlog":self.backlog})
    }
    pub fn from_json(v: &Value) -> Self {
        Self {
            kind: v["kind"].as_str().unwrap().to_string(),
            j: v["j"].as_u64().unwrap() as usize,
            need: v["need"].as_u64().unwrap() as usize,
            backlog: v["backlog"].as_u64().unwrap() as usize,
        }
    }
}

pub fn eos_scenario(p: &EosParams) {
    match p.kind.as_str() {
        "reader" | "reader-eof" => eos_reader(p),
        "writer" => eos_writer(p),
        "nc-reader" | "nc-reader-eof" => eos_nc_reader(p),
        "nc-writer" => eos_nc_writer(p),
        k => panic!("unknown eos kind {k}"),
    }
}

type T2 = Big2048;

fn eos_reader(p: &EosParams) {
    setup(1);
    let clock = thread::spawn(dfs::clock_body);
    let (w, r) = new_stream::<T2>();
    let cap = 2usize;
    let (j, need, backlog) = (p.j, p.need, p.backlog);
    let use_eof = p.kind == "reader-eof";
    let total = backlog + j;
    let mut next = 1u64;
    if backlog > 0 {
        let mut wb = w.write_buf().unwrap();
        for i in 0..backlog {
            wb.slice()[i] = T2::from_serial(next + i as u64);
        }
        wb.produce(backlog, &[]);
        next += backlog as u64;
    }
    let writer_gone = Arc::new(AtomicBool::new(false));
    let wg = writer_gone.clone();
    let wt = thread::spawn(move || {
        for _ in 0..j {
            let mut waits = 0;
            loop {
                let mut wb = w.write_buf().unwrap();
                if !wb.is_empty() {
                    wb.slice()[0] = T2::from_serial(next);
                    wb.produce(1, &[]);
                    next += 1;
                    break;
                }
                drop(wb);
                if w.wait_for_write(1) {
                    violate("writer-told-reader-gone", "reader is alive".into());
                    return;
                }
                waits += 1;
                if waits > 32 {
                    violate("writer-starved", "no room after 32 waits".into());
                    return;
                }
            }
        }
        // The flag flips in the same atomic step as the drop: there is no
        // scheduling point in between.
        drop(w);
        wg.store(true, Ordering::SeqCst);
        PROGRESS.fetch_add(1, Ordering::SeqCst);
    });
    let rt = thread::spawn(move || {
        let mut got = 0usize;
        let mut late_waits = 0;
        let mut iters = 0;
        loop {
            iters += 1;
            if iters > 64 {
                violate("never-told", "reader still not told after 64 rounds".into());
                return;
            }
            let gone_before = writer_gone.load(Ordering::SeqCst);
            let remaining_before = total - got;
            // The runner's rule: stop if the wait says "never", or if the
            // block's eof() (all inputs closed and empty) says so.
            let by_wait = r.wait_for_read(need);
            let by_eof = use_eof && r.eof();
            let never = by_wait || by_eof;
            let (rb, _) = r.read_buf().unwrap();
            if never {
                if !writer_gone.load(Ordering::SeqCst) {
                    violate("told-too-early", "told 'never' while the writer is alive".into());
                    return;
                }
                let limit = if by_wait { need } else { 1 };
                if rb.len() >= limit {
                    violate(
                        "told-with-data",
                        format!("told 'never' (need {need}) with {} samples buffered", rb.len()),
                    );
                    return;
                }
                if rb.len() != total - got {
                    violate(
                        "lost-data",
                        format!("{} readable after end-of-stream, {} committed and unread", rb.len(), total - got),
                    );
                    return;
                }
                // "Never" was the answer to that request. A smaller one that
                // the remainder covers is a different question.
                let left = rb.len();
                drop(rb);
                if by_wait && left >= 1 && r.wait_for_read(left) {
                    violate(
                        "told-with-data",
                        format!("after 'never' for {need}, a request for the {left} buffered samples was also answered 'never'"),
                    );
                    return;
                }
                break;
            }
            if gone_before && remaining_before < need {
                late_waits += 1;
                if late_waits > 1 {
                    violate(
                        "not-told",
                        format!("writer was gone and {remaining_before} < {need} remained before the call, twice, and still not told"),
                    );
                    return;
                }
            }
            // Verify and consume what a block with this `need` would.
            for (i, s) in rb.slice().iter().enumerate() {
                let want = T2::from_serial((got + 1 + i) as u64);
                if *s != want {
                    violate("content", format!("saw {s:?}, want {want:?}"));
                    return;
                }
            }
            let n = rb.len();
            let take = if n >= need { need.min(n) } else { 0 };
            rb.consume(take);
            got += take;
        }
        let _ = cap;
        PROGRESS.fetch_add(1, Ordering::SeqCst);
    });
    wt.join().unwrap();
    rt.join().unwrap();
    finish(clock);
}

fn eos_writer(p: &EosParams) {
    // Reader consumes j of an initially full buffer, then goes away. Writer
    // wants `need` slots.
    setup(1);
    let clock = thread::spawn(dfs::clock_body);
    let (w, r) = new_stream::<T2>();
    let cap = 2usize;
    let (j, need) = (p.j.min(cap), p.need);
    {
        let mut wb = w.write_buf().unwrap();
        for i in 0..cap {
            wb.slice()[i] = T2::from_serial(1 + i as u64);
        }
        wb.produce(cap, &[]);
    }
    let reader_gone = Arc::new(AtomicBool::new(false));
    let rg = reader_gone.clone();
    let rt = thread::spawn(move || {
        for _ in 0..j {
            let (rb, _) = r.read_buf().unwrap();
            if rb.is_empty() {
                violate("content", "full buffer shows nothing".into());
                return;
            }
            rb.consume(1);
        }
        drop(r);
        rg.store(true, Ordering::SeqCst);
        PROGRESS.fetch_add(1, Ordering::SeqCst);
    });
    let wt = thread::spawn(move || {
        let mut late = 0;
        for _ in 0..64 {
            let gone_before = reader_gone.load(Ordering::SeqCst);
            let free_before = w.free();
            let never = w.wait_for_write(need);
            if never {
                if !reader_gone.load(Ordering::SeqCst) {
                    violate("told-too-early", "writer told 'never' while the reader is alive".into());
                }
                PROGRESS.fetch_add(1, Ordering::SeqCst);
                return;
            }
            if w.free() >= need {
                // Got the room. Done.
                PROGRESS.fetch_add(1, Ordering::SeqCst);
                return;
            }
            if gone_before && free_before < need {
                late += 1;
                if late > 1 {
                    violate("not-told", "reader gone, not enough room, writer not released".into());
                    return;
                }
            }
        }
        violate("never-told", "writer still waiting after 64 rounds".into());
    });
    rt.join().unwrap();
    wt.join().unwrap();
    finish(clock);
}

fn eos_nc_reader(p: &EosParams) {
    setup(1);
    let clock = thread::spawn(dfs::clock_body);
    let (w, r) = new_nocopy_stream::<Vec<u8>>();
    let (j, need, backlog) = (p.j, p.need, p.backlog);
    let use_eof = p.kind == "nc-reader-eof";
    let total = backlog + j;
    for i in 0..backlog {
        w.push(vec![i as u8], &[]);
    }
    // What the reader knows to be queued (a lower bound): it takes packets
    // only in groups of `need`, as a block that asked for `need` would, so a
    // remainder smaller than `need` stays queued.
    let pushed = Arc::new(AtomicUsize::new(backlog));
    let pushed_w = pushed.clone();
    let writer_gone = Arc::new(AtomicBool::new(false));
    let wg = writer_gone.clone();
    let wt = thread::spawn(move || {
        for i in 0..j {
            // Counted first: push() has a scheduling point after its unlock,
            // and a reader that saw the packet but not the count would spin.
            pushed_w.fetch_add(1, Ordering::SeqCst);
            w.push(vec![(backlog + i) as u8], &[]);
        }
        drop(w);
        wg.store(true, Ordering::SeqCst);
        PROGRESS.fetch_add(1, Ordering::SeqCst);
    });
    let got = Arc::new(AtomicUsize::new(0));
    let got2 = got.clone();
    let rt = thread::spawn(move || {
        let mut late = 0;
        for _ in 0..64 {
            let gone_before = writer_gone.load(Ordering::SeqCst);
            let remaining_before = total - got2.load(Ordering::SeqCst);
            let by_wait = r.wait(need);
            let by_eof = use_eof && r.eof();
            let never = by_wait || by_eof;
            if never {
                if !writer_gone.load(Ordering::SeqCst) {
                    violate("told-too-early", "told 'never' while the writer is alive".into());
                    return;
                }
                // Drain and count.
                let mut left = 0;
                while let Some((v, _)) = r.pop() {
                    let want = got2.load(Ordering::SeqCst) as u8;
                    if v != vec![want] {
                        violate("content", format!("popped {v:?}, want [{want}]"));
                        return;
                    }
                    got2.fetch_add(1, Ordering::SeqCst);
                    left += 1;
                }
                let limit = if by_wait { need } else { 1 };
                if left >= limit {
                    violate(
                        "told-with-data",
                        format!("told 'never' (need {need}) with {left} packets queued"),
                    );
                    return;
                }
                if got2.load(Ordering::SeqCst) != total {
                    violate("lost-data", format!("{} of {total} packets", got2.load(Ordering::SeqCst)));
                }
                PROGRESS.fetch_add(1, Ordering::SeqCst);
                return;
            }
            if gone_before && remaining_before < need {
                late += 1;
                if late > 1 {
                    violate("not-told", "writer gone, too little queued, reader not told".into());
                    return;
                }
            }
            // Pop what a block with this need would: `need` packets if there.
            let mut avail = Vec::new();
            let known = pushed.load(Ordering::SeqCst) - got2.load(Ordering::SeqCst);
            for _ in 0..(if known >= need { need } else { 0 }) {
                match r.pop() {
                    Some((v, _)) => avail.push(v),
                    None => break,
                }
            }
            for v in avail {
                let want = got2.load(Ordering::SeqCst) as u8;
                if v != vec![want] {
                    violate("content", format!("popped {v:?}, want [{want}]"));
                    return;
                }
                got2.fetch_add(1, Ordering::SeqCst);
            }
        }
        violate("never-told", "reader still not told after 64 rounds".into());
    });
    wt.join().unwrap();
    rt.join().unwrap();
    finish(clock);
}

fn eos_nc_writer(_p: &EosParams) {
    setup(1);
    let clock = thread::spawn(dfs::clock_body);
    let (w, r) = new_nocopy_stream::<Vec<u8>>();
    let reader_gone = Arc::new(AtomicBool::new(false));
    let rg = reader_gone.clone();
    let rt = thread::spawn(move || {
        let _ = r.pop();
        drop(r);
        rg.store(true, Ordering::SeqCst);
    });
    let wt = thread::spawn(move || {
        for _ in 0..8 {
            let gone_before = reader_gone.load(Ordering::SeqCst);
            let never = w.wait(1);
            if never && !reader_gone.load(Ordering::SeqCst) {
                violate("told-too-early", "packet writer told 'never' while the reader is alive".into());
                return;
            }
            if never {
                return;
            }
            if gone_before {
                violate("not-told", "packet reader gone, writer not told".into());
                return;
            }
            w.push(vec![1], &[]);
        }
    });
    rt.join().unwrap();
    wt.join().unwrap();
    finish(clock);
}
