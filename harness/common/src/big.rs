//! Fat sample types: a u64 payload padded to N bytes, so that a one-page stream
//! holds only 4096/N samples. Lets exhaustive exploration reach "full" and
//! "wrap" in a couple of steps.
use rustradio::Sample;

/// Fat sample types: everything the generic library blocks need.
pub trait BigT:
    Elem
    + From<u64>
    + Default
    + std::ops::Add<Output = Self>
    + std::ops::Mul<Output = Self>
    + std::ops::BitXor<Output = Self>
    + rustradio::Sample<Type = Self>
{
    /// Payload.
    fn val(&self) -> u64;
    /// Stream capacity per page.
    fn per_page() -> usize {
        4096 / std::mem::size_of::<Self>()
    }
}

/// Common interface for all the element types used by the ring engines.
pub trait Elem: Copy + PartialEq + std::fmt::Debug + Send + Sync + 'static {
    /// Make a value from a serial number, filling the *whole* element, so that
    /// torn or shifted data can't go unnoticed.
    fn from_serial(s: u64) -> Self;
    /// Value never produced by `from_serial` for the serials used.
    fn poison() -> Self;
    /// Short name.
    fn name() -> String;
    /// Number of distinct `from_serial` values (serials are taken modulo this).
    fn modulus() -> u64 {
        u64::MAX
    }
}

macro_rules! big_type {
    ($name:ident, $n:expr) => {
        /// Fat sample.
        #[repr(C)]
        #[derive(Copy, Clone)]
        pub struct $name {
            /// Payload.
            pub v: u64,
            pad: [u64; $n / 8 - 1],
        }
        impl $name {
            /// Create from payload. Padding carries a function of the payload.
            pub fn new(v: u64) -> Self {
                Self {
                    v,
                    pad: [v ^ 0x5a5a_5a5a_5a5a_5a5a; $n / 8 - 1],
                }
            }
            /// True if padding matches payload: element not torn.
            pub fn intact(&self) -> bool {
                self.pad.iter().all(|p| *p == self.v ^ 0x5a5a_5a5a_5a5a_5a5a)
            }
        }
        impl Default for $name {
            fn default() -> Self {
                Self::new(0)
            }
        }
        impl PartialEq for $name {
            fn eq(&self, o: &Self) -> bool {
                self.v == o.v && self.pad[..] == o.pad[..]
            }
        }
        impl std::fmt::Debug for $name {
            fn fmt(&self, f: &mut std::fmt::Formatter<'_>) -> std::fmt::Result {
                if self.intact() {
                    write!(f, "B{}", self.v)
                } else {
                    write!(f, "B{}(torn)", self.v)
                }
            }
        }
        impl std::ops::Add for $name {
            type Output = Self;
            fn add(self, o: Self) -> Self {
                Self::new(self.v.wrapping_add(o.v))
            }
        }
        impl std::ops::Mul for $name {
            type Output = Self;
            fn mul(self, o: Self) -> Self {
                Self::new(self.v.wrapping_mul(o.v))
            }
        }
        impl std::ops::BitXor for $name {
            type Output = Self;
            fn bitxor(self, o: Self) -> Self {
                Self::new(self.v ^ o.v)
            }
        }
        impl Sample for $name {
            type Type = $name;
            fn size() -> usize {
                8
            }
            fn parse(data: &[u8]) -> rustradio::Result<Self::Type> {
                if data.len() != 8 {
                    return Err(rustradio::Error::msg("Big: wrong size"));
                }
                Ok(Self::new(u64::from_le_bytes(data.try_into().unwrap())))
            }
            fn serialize(&self) -> Vec<u8> {
                self.v.to_le_bytes().to_vec()
            }
        }
        impl Elem for $name {
            fn from_serial(s: u64) -> Self {
                Self::new(s)
            }
            fn poison() -> Self {
                Self::new(u64::MAX - 1)
            }
            fn name() -> String {
                stringify!($name).to_string()
            }
        }
        impl From<u64> for $name {
            fn from(v: u64) -> Self {
                Self::new(v)
            }
        }
        impl rustradio::sigmf::Type for $name {
            fn type_string() -> &'static str {
                "ru64"
            }
        }
        impl BigT for $name {
            fn val(&self) -> u64 {
                self.v
            }
        }
    };
}

big_type!(Big4096, 4096);
big_type!(Big2048, 2048);
big_type!(Big1024, 1024);

/// Shorthand: capacity-1-per-page sample.
pub type B1 = Big4096;
/// Shorthand: capacity-2-per-page sample.
pub type B2 = Big2048;
/// Shorthand: capacity-4-per-page sample.
pub type B4 = Big1024;

/// Make a vector of fat samples from payloads.
pub fn bigs<T: From<u64>>(v: &[u64]) -> Vec<T> {
    v.iter().map(|x| T::from(*x)).collect()
}

impl Elem for u8 {
    fn from_serial(s: u64) -> Self {
        (s % 251) as u8
    }
    fn poison() -> Self {
        0xff
    }
    fn name() -> String {
        "u8".into()
    }
    fn modulus() -> u64 {
        251
    }
}
impl Elem for u16 {
    fn from_serial(s: u64) -> Self {
        (s % 65521) as u16
    }
    fn poison() -> Self {
        0xffff
    }
    fn name() -> String {
        "u16".into()
    }
    fn modulus() -> u64 {
        65521
    }
}
impl Elem for u32 {
    fn from_serial(s: u64) -> Self {
        (s as u32).wrapping_mul(0x9E37_79B1) ^ 0x1234_5678
    }
    fn poison() -> Self {
        // from_serial is a bijection on u32; serials stay far below the
        // preimage of this value.
        Self::from_serial(u32::MAX as u64)
    }
    fn name() -> String {
        "u32".into()
    }
}
impl Elem for u64 {
    fn from_serial(s: u64) -> Self {
        s.wrapping_mul(0x9E37_79B9_7F4A_7C15) ^ 0x0123_4567_89ab_cdef
    }
    fn poison() -> Self {
        Self::from_serial(u64::MAX)
    }
    fn name() -> String {
        "u64".into()
    }
}
impl Elem for u128 {
    fn from_serial(s: u64) -> Self {
        let a = <u64 as Elem>::from_serial(s) as u128;
        let b = <u64 as Elem>::from_serial(!s) as u128;
        (a << 64) | b
    }
    fn poison() -> Self {
        Self::from_serial(u64::MAX)
    }
    fn name() -> String {
        "u128".into()
    }
}
impl Elem for f32 {
    fn from_serial(s: u64) -> Self {
        // Stay away from NaN so PartialEq works: keep the exponent below 255.
        f32::from_bits(((s as u32).wrapping_mul(0x9E37_79B1)) & 0x7f7f_fffe)
    }
    fn poison() -> Self {
        f32::from_bits(0x7f7f_ffff)
    }
    fn name() -> String {
        "f32".into()
    }
    fn modulus() -> u64 {
        1 << 22
    }
}
impl Elem for rustradio::Complex {
    fn from_serial(s: u64) -> Self {
        rustradio::Complex::new(
            <f32 as Elem>::from_serial(s),
            <f32 as Elem>::from_serial(s.wrapping_add(0x1000_0001)),
        )
    }
    fn poison() -> Self {
        rustradio::Complex::new(<f32 as Elem>::poison(), <f32 as Elem>::poison())
    }
    fn name() -> String {
        "Complex".into()
    }
    fn modulus() -> u64 {
        1 << 22
    }
}
macro_rules! arr_elem {
    ($n:expr) => {
        impl Elem for [u8; $n] {
            fn from_serial(s: u64) -> Self {
                let mut a = [0u8; $n];
                let x = <u64 as Elem>::from_serial(s).to_le_bytes();
                for (i, b) in a.iter_mut().enumerate() {
                    *b = x[i % 8] ^ (i as u8).wrapping_mul(29);
                }
                a
            }
            fn poison() -> Self {
                [0xee; $n]
            }
            fn name() -> String {
                format!("[u8;{}]", $n)
            }
            fn modulus() -> u64 {
                if $n >= 8 { u64::MAX } else { 1 << (8 * $n.min(7)) }
            }
        }
    };
}
arr_elem!(3);
arr_elem!(12);
arr_elem!(8192);
arr_elem!(24);
