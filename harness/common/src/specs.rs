//! Executable specifications, written from the documentation.

/// Rational resampler without filtering: after reducing interp/deci by their
/// gcd, input sample k (0-based) appears ceil((k+1)*I/D) - ceil(k*I/D) times.
pub fn resample(input: &[u64], interp: usize, deci: usize) -> Vec<u64> {
    fn gcd(a: usize, b: usize) -> usize {
        if b == 0 { a } else { gcd(b, a % b) }
    }
    let g = gcd(interp, deci);
    let (i, d) = (interp / g, deci / g);
    let ceil = |a: usize, b: usize| a.div_ceil(b);
    let mut out = vec![];
    for (k, s) in input.iter().enumerate() {
        let n = ceil((k + 1) * i, d) - ceil(k * i, d);
        for _ in 0..n {
            out.push(*s);
        }
    }
    out
}
