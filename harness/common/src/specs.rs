//! Executable specifications, written from the documentation.

/// Rational resampler without filtering: after reducing interp/deci by their
/// gcd, input sample k (0-based) appears ceil((k+1)*I/D) - ceil(k*I/D) times.
pub fn resample(input: &[u64], interp: usize, deci: usize) -> Vec<u64> {
    fn gcd(a: usize, b: usize) -> usize {
        if b == 0 { a } else { gcd(b, a % b) }
    }
    let g = gcd(interp, deci);
    let (i, d) = (interp / g, deci / g);
    let ceil = |a: usize, b: usize| a.div_ceil(b);
    let mut out = vec![];
    for (k, s) in input.iter().enumerate() {
        let n = ceil((k + 1) * i, d) - ceil(k * i, d);
        for _ in 0..n {
            out.push(*s);
        }
    }
    out
}

/// CRC-16/X.25 (reflected polynomial 0x8408, init 0xffff, final xor 0xffff),
/// computed bit by bit from the polynomial: independent of any table.
pub fn crc16_x25(data: &[u8]) -> u16 {
    let mut crc: u16 = 0xffff;
    for b in data {
        crc ^= *b as u16;
        for _ in 0..8 {
            crc = if crc & 1 != 0 { (crc >> 1) ^ 0x8408 } else { crc >> 1 };
        }
    }
    !crc
}

/// Bytes to bits, least significant bit first.
pub fn bytes_to_bits_lsb(data: &[u8]) -> Vec<u8> {
    data.iter().flat_map(|b| (0..8).map(move |i| (b >> i) & 1)).collect()
}

/// HDLC bit stuffing: a 0 after every five consecutive 1s.
pub fn stuff(bits: &[u8]) -> Vec<u8> {
    let mut out = Vec::new();
    let mut ones = 0;
    for b in bits {
        out.push(*b);
        if *b == 1 {
            ones += 1;
            if ones == 5 {
                out.push(0);
                ones = 0;
            }
        } else {
            ones = 0;
        }
    }
    out
}

pub const FLAG: [u8; 8] = [0, 1, 1, 1, 1, 1, 1, 0];

/// Body of an HDLC frame (between flags): payload + CRC (little endian),
/// LSB-first, stuffed.
pub fn hdlc_body(payload: &[u8], with_crc: bool) -> Vec<u8> {
    let mut bytes = payload.to_vec();
    if with_crc {
        bytes.extend(crc16_x25(payload).to_le_bytes());
    }
    stuff(&bytes_to_bits_lsb(&bytes))
}

/// A complete transmission: `pre` flags, then each frame followed by
/// `between` flags (at least one: shared flag when 1).
pub fn hdlc_stream(frames: &[Vec<u8>], with_crc: bool, pre: usize, between: usize) -> Vec<u8> {
    let mut out = Vec::new();
    for _ in 0..pre.max(1) {
        out.extend(FLAG);
    }
    for f in frames {
        out.extend(hdlc_body(f, with_crc));
        for _ in 0..between.max(1) {
            out.extend(FLAG);
        }
    }
    out
}

/// NRZI-S decode: output 1 if the level stayed, 0 if it toggled. The level
/// before the first bit is 0.
pub fn nrzi_decode(bits: &[u8]) -> Vec<u8> {
    let mut last = 0u8;
    bits.iter()
        .map(|b| {
            let o = 1 ^ b ^ last;
            last = *b;
            o
        })
        .collect()
}

/// NRZI-S encode (inverse of the above): a 0 toggles the level, a 1 keeps it.
pub fn nrzi_encode(bits: &[u8]) -> Vec<u8> {
    let mut level = 0u8;
    bits.iter()
        .map(|b| {
            if *b == 0 {
                level ^= 1;
            }
            level
        })
        .collect()
}

/// Multiplicative (self-synchronising) descrambler: out = in ^ parity(reg & mask);
/// then the input bit is shifted in at bit `len` while the register shifts
/// right.
pub fn descramble(bits: &[u8], mask: u64, seed: u64, len: u8) -> Vec<u8> {
    let mut reg = seed;
    bits.iter()
        .map(|b| {
            let o = ((reg & mask).count_ones() as u8 & 1) ^ b;
            reg = (reg >> 1) | ((*b as u64) << len);
            o
        })
        .collect()
}

/// Scrambler matching `descramble`: feeds back its own *output*.
pub fn scramble(bits: &[u8], mask: u64, seed: u64, len: u8) -> Vec<u8> {
    let mut reg = seed;
    bits.iter()
        .map(|b| {
            let o = ((reg & mask).count_ones() as u8 & 1) ^ b;
            reg = (reg >> 1) | ((o as u64) << len);
            o
        })
        .collect()
}

/// Sliding-window correlator: output k is 1 iff the last `code.len()` input
/// bits (with zeros before the start) differ from the code in at most
/// `allowed` places.
pub fn correlate(bits: &[u8], code: &[u8], allowed: usize) -> Vec<(u8, usize)> {
    let n = code.len();
    let mut win = vec![0u8; n];
    bits.iter()
        .map(|b| {
            win.push(*b);
            win.remove(0);
            let d = win.iter().zip(code).filter(|(a, b)| a != b).count();
            ((d <= allowed) as u8, d)
        })
        .collect()
}
