//! Shared pieces of the verification harness: fat sample types, result
//! reporting, small helpers.
pub mod big;
pub mod graphs;
pub mod report;
pub mod specs;

pub use big::*;
pub use report::*;

/// Page size used for stream sizing.
pub const PAGE: usize = 4096;

/// Run `f`, catching panics. Returns Err(message) on panic.
pub fn catch<R>(f: impl FnOnce() -> R) -> Result<R, String> {
    IN_CATCH.with(|c| c.set(c.get() + 1));
    let r = std::panic::catch_unwind(std::panic::AssertUnwindSafe(f));
    IN_CATCH.with(|c| c.set(c.get() - 1));
    match r {
        Ok(r) => Ok(r),
        Err(e) => Err(panic_msg(&e)),
    }
}

/// Extract a message from a panic payload.
pub fn panic_msg(e: &Box<dyn std::any::Any + Send>) -> String {
    if let Some(s) = e.downcast_ref::<&str>() {
        s.to_string()
    } else if let Some(s) = e.downcast_ref::<String>() {
        s.clone()
    } else {
        "<non-string panic>".to_string()
    }
}

/// Silence the default panic hook (panics are expected and caught).
pub fn quiet_panics() {
    if std::env::var_os("VERIF_DEBUG").is_some() {
        return;
    }
    // Panics on the main thread outside catch() are machinery errors: keep
    // them visible. Anything caught is expected.
    std::panic::set_hook(Box::new(|info| {
        if IN_CATCH.with(|c| c.get()) == 0 {
            eprintln!("machinery panic: {info}");
        }
    }));
}

/// Are we inside `catch()`?
pub fn in_catch() -> bool {
    IN_CATCH.with(|c| c.get()) > 0
}

thread_local! {
    static IN_CATCH: std::cell::Cell<u32> = const { std::cell::Cell::new(0) };
}

/// All compositions of `n` into positive parts, each part <= `max_part`.
pub fn compositions(n: usize, max_part: usize) -> Vec<Vec<usize>> {
    fn rec(n: usize, max_part: usize, cur: &mut Vec<usize>, out: &mut Vec<Vec<usize>>) {
        if n == 0 {
            out.push(cur.clone());
            return;
        }
        for p in 1..=n.min(max_part) {
            cur.push(p);
            rec(n - p, max_part, cur, out);
            cur.pop();
        }
    }
    let mut out = Vec::new();
    rec(n, max_part, &mut Vec::new(), &mut out);
    out
}

/// Simple FNV-1a hash, for stable sharding / ids.
pub fn fnv(data: &[u8]) -> u64 {
    let mut h: u64 = 0xcbf29ce484222325;
    for b in data {
        h ^= *b as u64;
        h = h.wrapping_mul(0x100000001b3);
    }
    h
}
