//! Result reporting: every engine run prints one JSON object, which the
//! `check` driver merges into evidence, VIOLATION / KNOWN-FINDING lines and
//! the exit code.
use serde_json::{Value, json};

/// One violation found by an engine.
#[derive(Clone, Debug)]
pub struct Violation {
    /// Stable identity: `property/subject/clause/shape`.
    pub signature: String,
    /// Human readable explanation.
    pub message: String,
    /// Everything needed to re-run exactly this case.
    pub replay: Value,
}

/// Accumulated result of one engine run.
#[derive(Debug)]
pub struct Report {
    pub property: String,
    pub engine: String,
    pub started: std::time::Instant,
    /// Executions / cases / histories run.
    pub evaluations: u64,
    /// Distinct non-trivial cases, by the engine's own rule.
    pub distinct_nontrivial: u64,
    pub states: u64,
    pub transitions: u64,
    pub traces_validated: u64,
    pub rule: String,
    pub samples: Vec<Value>,
    pub exhaustive: bool,
    pub extra: serde_json::Map<String, Value>,
    pub assumptions: Vec<String>,
    pub caps: Vec<String>,
    pub violations: Vec<Violation>,
    max_samples: usize,
}

impl Report {
    pub fn new(property: &str, engine: &str) -> Self {
        Self {
            property: property.into(),
            engine: engine.into(),
            started: std::time::Instant::now(),
            evaluations: 0,
            distinct_nontrivial: 0,
            states: 0,
            transitions: 0,
            traces_validated: 0,
            rule: String::new(),
            samples: Vec::new(),
            exhaustive: true,
            extra: serde_json::Map::new(),
            assumptions: Vec::new(),
            caps: Vec::new(),
            violations: Vec::new(),
            max_samples: 6,
        }
    }

    /// Record a sample case, up to a small cap.
    pub fn sample(&mut self, v: Value) {
        if self.samples.len() < self.max_samples {
            self.samples.push(v);
        }
    }

    /// Record a violation, deduplicated by signature (first witness wins).
    pub fn violation(&mut self, signature: impl Into<String>, message: impl Into<String>, replay: Value) {
        let signature = signature.into();
        if self.violations.iter().any(|v| v.signature == signature) {
            return;
        }
        self.violations.push(Violation {
            signature,
            message: message.into(),
            replay,
        });
    }

    pub fn has_signature(&self, sig: &str) -> bool {
        self.violations.iter().any(|v| v.signature == sig)
    }

    /// A cap was hit: the run is not exhaustive for the stated space.
    pub fn cap(&mut self, what: impl Into<String>) {
        self.exhaustive = false;
        self.caps.push(what.into());
    }

    pub fn set(&mut self, k: &str, v: Value) {
        self.extra.insert(k.into(), v);
    }

    pub fn add(&mut self, k: &str, n: u64) {
        let cur = self.extra.get(k).and_then(|v| v.as_u64()).unwrap_or(0);
        self.extra.insert(k.into(), json!(cur + n));
    }

    pub fn to_json(&self) -> Value {
        json!({
            "property": self.property,
            "engine": self.engine,
            "evaluations": self.evaluations,
            "distinct_nontrivial": self.distinct_nontrivial,
            "states": self.states,
            "transitions": self.transitions,
            "traces_validated_against_impl": self.traces_validated,
            "rule": self.rule,
            "samples": self.samples,
            "exhaustive": self.exhaustive,
            "extra": self.extra,
            "assumptions": self.assumptions,
            "caps": self.caps,
            "wall_s": self.started.elapsed().as_secs_f64(),
            "violations": self.violations.iter().map(|v| json!({
                "signature": v.signature,
                "message": v.message,
                "replay": v.replay,
            })).collect::<Vec<_>>(),
        })
    }

    /// Print result, as the last line on stdout, prefixed for the driver.
    pub fn emit(&self) {
        println!("VERIF-RESULT {}", self.to_json());
    }
}
