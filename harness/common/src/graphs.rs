//! Small graphs over the block library, described as data so that they can be
//! enumerated, put in replay files, and given an expected result by pure
//! functions.
use rustradio::Result;
use rustradio::block::{Block, BlockEOF, BlockName, BlockRet};
use rustradio::blocks::*;
use rustradio::stream::{ReadStream, WriteStream};
use serde_json::{Value, json};

use crate::big::*;

/// One processing stage of a chain.
#[derive(Clone, Debug, PartialEq)]
pub enum Stage {
    AddConst(u64),
    Skip(usize),
    Delay(usize),
    Resamp(usize, usize),
    /// Harness block: moves data and reports WaitForStream from the same call.
    MoveWait,
    /// Harness block: derive(sync) identity with a counter.
    SyncId,
    /// Harness block: moves data and reports WaitForFunc from the same call
    /// (as FftFilterFloat does).
    MoveWaitFunc,
    /// StreamToPdu + VecToStream pair is not a single stage; see Shape::Packets.
    XorConst(u64),
    MulConst(u64),
    /// The real FirFilter with taps 1, 2, .., n: needs a window of n samples
    /// and leaves n - 1 of them in its input stream.
    Fir(usize),
}

impl Stage {
    pub fn spec(&self, input: &[u64]) -> Vec<u64> {
        match self {
            Stage::AddConst(c) => input.iter().map(|x| x.wrapping_add(*c)).collect(),
            Stage::XorConst(c) => input.iter().map(|x| x ^ *c).collect(),
            Stage::MulConst(c) => input.iter().map(|x| x.wrapping_mul(*c)).collect(),
            Stage::Skip(n) => input.iter().skip(*n).copied().collect(),
            Stage::Delay(n) => {
                // With no input at all nothing defines how many zeros come
                // out; see GraphSpec::degenerate().
                let mut v = vec![0u64; *n];
                v.extend_from_slice(input);
                v
            }
            Stage::Resamp(i, d) => crate::specs::resample(input, *i, *d),
            Stage::MoveWait | Stage::SyncId | Stage::MoveWaitFunc => input.to_vec(),
            Stage::Fir(n) => {
                if input.len() < *n {
                    return vec![];
                }
                (0..=input.len() - n)
                    .map(|i| (0..*n).fold(0u64, |acc, j| acc.wrapping_add(((n - j) as u64).wrapping_mul(input[i + j]))))
                    .collect()
            }
        }
    }
    fn to_json(&self) -> Value {
        match self {
            Stage::AddConst(c) => json!({"AddConst": c}),
            Stage::XorConst(c) => json!({"XorConst": c}),
            Stage::MulConst(c) => json!({"MulConst": c}),
            Stage::Skip(c) => json!({"Skip": c}),
            Stage::Delay(c) => json!({"Delay": c}),
            Stage::Resamp(i, d) => json!({"Resamp": [i, d]}),
            Stage::MoveWait => json!("MoveWait"),
            Stage::SyncId => json!("SyncId"),
            Stage::MoveWaitFunc => json!("MoveWaitFunc"),
            Stage::Fir(n) => json!({"Fir": n}),
        }
    }
    fn from_json(v: &Value) -> Self {
        if let Some(s) = v.as_str() {
            return match s {
                "MoveWait" => Stage::MoveWait,
                "MoveWaitFunc" => Stage::MoveWaitFunc,
                _ => Stage::SyncId,
            };
        }
        let o = v.as_object().unwrap();
        let (k, x) = o.iter().next().unwrap();
        match k.as_str() {
            "AddConst" => Stage::AddConst(x.as_u64().unwrap()),
            "XorConst" => Stage::XorConst(x.as_u64().unwrap()),
            "MulConst" => Stage::MulConst(x.as_u64().unwrap()),
            "Skip" => Stage::Skip(x.as_u64().unwrap() as usize),
            "Delay" => Stage::Delay(x.as_u64().unwrap() as usize),
            "Fir" => Stage::Fir(x.as_u64().unwrap() as usize),
            "Resamp" => Stage::Resamp(x[0].as_u64().unwrap() as usize, x[1].as_u64().unwrap() as usize),
            _ => panic!("stage {k}"),
        }
    }
}

#[derive(Clone, Debug, PartialEq)]
pub enum Shape {
    /// src -> stages... -> sink
    Chain(Vec<Stage>),
    /// src -> tee -> (stage_a -> sink_a, stage_b -> sink_b)
    Tee(Option<Stage>, Option<Stage>),
    /// src -> tee -> (a, b) -> Add -> sink
    Diamond(Option<Stage>, Option<Stage>),
    /// src_a, src_b -> Add -> sink (second source has its own length)
    Merge(usize),
    /// src -> MarkBursts(k) -> StreamToPdu -> VecToStream -> sink
    Packets(usize),
    /// harness packet source (packets of these sizes) -> VecToStream -> sink
    VecPackets(Vec<usize>),
    /// Like Packets(k), with StreamToPdu's `tail` set and bursts `tail + 1`
    /// samples further apart: (k, tail).
    PacketsTail(usize, usize),
    /// src -> FileSink (overwrite) on `tofile_path()`. No in-memory sink: the
    /// file is the result.
    ToFile,
}

/// Where Shape::ToFile writes (one per process).
pub fn tofile_path() -> std::path::PathBuf {
    std::env::temp_dir().join(format!("verif-tofile-{}.bin", std::process::id()))
}

#[derive(Clone, Debug, PartialEq)]
pub struct GraphSpec {
    pub shape: Shape,
    /// Samples per page: 1, 2 or 4 (picks the element type).
    pub per_page: usize,
    pub pages: usize,
    pub src_len: usize,
    /// Order in which blocks are added; a permutation of 0..nblocks in
    /// topological numbering.
    pub order: Vec<usize>,
    /// 0: VectorSource. n > 0: FileSource repeating the data n times.
    pub file_repeat: u64,
    /// With `file_repeat == 0`: n > 1 makes the VectorSource repeat n times.
    pub vec_repeat: u64,
}

impl GraphSpec {
    pub fn to_json(&self) -> Value {
        let shape = match &self.shape {
            Shape::Chain(st) => json!({"chain": st.iter().map(|s| s.to_json()).collect::<Vec<_>>()}),
            Shape::Tee(a, b) => json!({"tee": [a.as_ref().map(|s| s.to_json()), b.as_ref().map(|s| s.to_json())]}),
            Shape::Diamond(a, b) => json!({"diamond": [a.as_ref().map(|s| s.to_json()), b.as_ref().map(|s| s.to_json())]}),
            Shape::Merge(n) => json!({"merge": n}),
            Shape::Packets(k) => json!({"packets": k}),
            Shape::PacketsTail(k, t) => json!({"packets_tail": [k, t]}),
            Shape::ToFile => json!({"tofile": 1}),
            Shape::VecPackets(v) => json!({"vecpackets": v}),
        };
        json!({"shape": shape, "per_page": self.per_page, "pages": self.pages, "src_len": self.src_len, "order": self.order,
            "file_repeat": self.file_repeat, "vec_repeat": self.vec_repeat})
    }
    pub fn from_json(v: &Value) -> Self {
        let o = v["shape"].as_object().unwrap();
        let (k, x) = o.iter().next().unwrap();
        let opt = |y: &Value| if y.is_null() { None } else { Some(Stage::from_json(y)) };
        let shape = match k.as_str() {
            "chain" => Shape::Chain(x.as_array().unwrap().iter().map(Stage::from_json).collect()),
            "tee" => Shape::Tee(opt(&x[0]), opt(&x[1])),
            "diamond" => Shape::Diamond(opt(&x[0]), opt(&x[1])),
            "merge" => Shape::Merge(x.as_u64().unwrap() as usize),
            "packets" => Shape::Packets(x.as_u64().unwrap() as usize),
            "tofile" => Shape::ToFile,
            "packets_tail" => Shape::PacketsTail(x[0].as_u64().unwrap() as usize, x[1].as_u64().unwrap() as usize),
            "vecpackets" => Shape::VecPackets(x.as_array().unwrap().iter().map(|y| y.as_u64().unwrap() as usize).collect()),
            _ => panic!("shape {k}"),
        };
        let us = |k: &str| v[k].as_u64().unwrap() as usize;
        Self {
            shape,
            per_page: us("per_page"),
            pages: us("pages"),
            src_len: us("src_len"),
            order: v["order"].as_array().unwrap().iter().map(|x| x.as_u64().unwrap() as usize).collect(),
            file_repeat: v["file_repeat"].as_u64().unwrap_or(0),
            vec_repeat: v["vec_repeat"].as_u64().unwrap_or(0),
        }
    }
    pub fn nblocks(&self) -> usize {
        match &self.shape {
            Shape::Chain(st) => st.len() + 2,
            Shape::Tee(a, b) => 4 + a.is_some() as usize + b.is_some() as usize,
            Shape::Diamond(a, b) => 4 + a.is_some() as usize + b.is_some() as usize,
            Shape::Merge(_) => 4,
            Shape::Packets(_) | Shape::PacketsTail(..) => 5,
            Shape::ToFile => 2,
            Shape::VecPackets(_) => 3,
        }
    }
    /// Programs whose result the documentation does not pin down, or that
    /// cannot work at all: a Delay stage that never gets any input (does it
    /// owe its leading zeros?), a packet larger than the stream it has to be
    /// written to.
    pub fn degenerate(&self) -> bool {
        let src = self.source_data();
        let cap = self.per_page * self.pages;
        let chain_has_starved_delay = |st: &[Stage], mut v: Vec<u64>| {
            for s in st {
                if matches!(s, Stage::Delay(_)) && v.is_empty() {
                    return true;
                }
                // A window that does not fit the stream can never be filled.
                if matches!(s, Stage::Fir(n) if *n > cap) {
                    return true;
                }
                v = s.spec(&v);
            }
            false
        };
        match &self.shape {
            Shape::Chain(st) => chain_has_starved_delay(st, src),
            Shape::Tee(a, b) | Shape::Diamond(a, b) => {
                a.iter().chain(b.iter()).any(|s| chain_has_starved_delay(std::slice::from_ref(s), src.clone()))
            }
            Shape::Merge(_) => false,
            Shape::Packets(k) => *k > self.per_page * self.pages,
            Shape::PacketsTail(k, t) => *k + *t > self.per_page * self.pages,
            Shape::ToFile => false,
            Shape::VecPackets(v) => v.iter().any(|k| *k > self.per_page * self.pages),
        }
    }
    /// What the source emits in total.
    pub fn source_data(&self) -> Vec<u64> {
        let once: Vec<u64> = (0..self.src_len as u64).map(|i| 10 + i).collect();
        let r = self.file_repeat.max(self.vec_repeat);
        if r > 1 {
            (0..r).flat_map(|_| once.iter().copied()).collect()
        } else {
            once
        }
    }
    /// Expected content of every sink, by pure functions.
    pub fn expected(&self) -> Vec<Vec<u64>> {
        let src = self.source_data();
        let ap = |s: &Option<Stage>, v: &[u64]| match s {
            Some(s) => s.spec(v),
            None => v.to_vec(),
        };
        match &self.shape {
            Shape::Chain(st) => {
                let mut v = src;
                for s in st {
                    v = s.spec(&v);
                }
                vec![v]
            }
            Shape::Tee(a, b) => vec![ap(a, &src), ap(b, &src)],
            Shape::Diamond(a, b) => {
                let (x, y) = (ap(a, &src), ap(b, &src));
                vec![x.iter().zip(y.iter()).map(|(p, q)| p.wrapping_add(*q)).collect()]
            }
            Shape::Merge(n) => {
                let other: Vec<u64> = (0..*n as u64).map(|i| 1000 + i).collect();
                vec![src.iter().zip(other.iter()).map(|(p, q)| p.wrapping_add(*q)).collect()]
            }
            Shape::VecPackets(v) => {
                let mut out = vec![];
                let mut n = 100u64;
                for k in v {
                    for _ in 0..*k {
                        out.push(n);
                        n += 1;
                    }
                }
                vec![out]
            }
            Shape::ToFile => vec![],
            Shape::PacketsTail(k, tail) => {
                // The StreamToPdu automaton, run over the whole input at
                // once: a burst starts on the start-marked sample, the
                // end-marked sample is not part of it, the `tail` samples
                // after that are, and the packet goes out when the sample
                // after the tail arrives.
                let period = k + 2 + tail;
                let mut out = vec![];
                let mut buf: Vec<u64> = vec![];
                let mut endc: Option<usize> = None;
                for (i, s) in src.iter().enumerate() {
                    let ph = i % period;
                    if endc == Some(0) {
                        out.append(&mut buf);
                        endc = None;
                    }
                    if let Some(c) = endc {
                        buf.push(*s);
                        endc = Some(c - 1);
                    } else if ph == 0 {
                        buf.push(*s);
                    } else if ph == *k {
                        endc = Some(*tail);
                    } else if !buf.is_empty() {
                        buf.push(*s);
                    }
                }
                vec![out]
            }
            Shape::Packets(k) => {
                // Bursts of k samples, separated by one sample that is
                // dropped: [k kept][1 dropped] repeating. Incomplete trailing
                // burst is not emitted.
                let mut out = vec![];
                let mut i = 0;
                // StreamToPdu (tail 0) emits a burst when the sample *after* the
                // end-tagged one arrives.
                while i + k + 1 < src.len() {
                    out.extend_from_slice(&src[i..i + k]);
                    i += k + 1;
                }
                vec![out]
            }
        }
    }
}

/// A built graph: blocks in topological order, plus the sinks' hooks.
pub struct Built<T: BigT> {
    pub blocks: Vec<Box<dyn Block + Send>>,
    pub sinks: Vec<rustradio::vector_sink::Hook<T>>,
}

impl<T: BigT> Built<T> {
    pub fn results(&self) -> Vec<Vec<u64>> {
        self.sinks.iter().map(|h| h.data().samples().iter().map(|s| s.val()).collect()).collect()
    }
    pub fn torn(&self) -> bool {
        self.sinks.iter().any(|h| h.data().samples().iter().any(|s| *s != T::from(s.val())))
    }
}

fn stage_block<T: BigT>(s: &Stage, src: ReadStream<T>) -> (Box<dyn Block + Send>, ReadStream<T>) {
    match s {
        Stage::AddConst(c) => {
            let (b, o) = AddConst::new(src, T::from(*c));
            (Box::new(b), o)
        }
        Stage::XorConst(c) => {
            let (b, o) = XorConst::new(src, T::from(*c));
            (Box::new(b), o)
        }
        Stage::MulConst(c) => {
            let (b, o) = MultiplyConst::new(src, T::from(*c));
            (Box::new(b), o)
        }
        Stage::Skip(n) => {
            let (b, o) = Skip::new(src, *n);
            (Box::new(b), o)
        }
        Stage::Delay(n) => {
            let (b, o) = Delay::new(src, *n);
            (Box::new(b), o)
        }
        Stage::Resamp(i, d) => {
            let (b, o) = RationalResampler::new(src, *i, *d).unwrap();
            (Box::new(b), o)
        }
        Stage::MoveWait => {
            let (b, o) = MoveWait::new(src);
            (Box::new(b), o)
        }
        Stage::SyncId => {
            let (b, o) = SyncId::new(src);
            (Box::new(b), o)
        }
        Stage::MoveWaitFunc => {
            let (b, o) = MoveWaitFunc::new(src);
            (Box::new(b), o)
        }
        Stage::Fir(n) => {
            let taps: Vec<T> = (1..=*n as u64).map(T::from).collect();
            let (b, o) = rustradio::fir::FirFilter::new(src, &taps);
            (Box::new(b), o)
        }
    }
}

const SINK_MAX: usize = 1_000_000;

/// Build the graph. Stream sizes come from the verification plan's default,
/// which the caller must have set.
pub fn build<T: BigT>(g: &GraphSpec) -> Built<T> {
    let mut blocks: Vec<Box<dyn Block + Send>> = Vec::new();
    let mut sinks = Vec::new();
    if let Shape::VecPackets(sizes) = &g.shape {
        let mut n = 100u64;
        let packets: Vec<Vec<T>> = sizes
            .iter()
            .map(|k| {
                (0..*k)
                    .map(|_| {
                        n += 1;
                        T::from(n - 1)
                    })
                    .collect()
            })
            .collect();
        let (src, po) = PacketSource::new(packets);
        blocks.push(Box::new(src));
        let (v2s, o) = VecToStream::new(po);
        blocks.push(Box::new(v2s));
        let s1 = VectorSink::new(o, SINK_MAX);
        sinks.push(s1.hook());
        blocks.push(Box::new(s1));
        return Built { blocks, sinks };
    }
    let mut prev = if g.file_repeat > 0 {
        let once: Vec<u8> = (0..g.src_len as u64).flat_map(|i| (10 + i).to_le_bytes()).collect();
        let path = std::env::temp_dir().join(format!("verif-graph-{}-{}.bin", std::process::id(), g.src_len));
        std::fs::write(&path, once).unwrap();
        let (mut src, o) = FileSource::<T>::new(&path).unwrap();
        src.repeat(rustradio::Repeat::finite(g.file_repeat));
        blocks.push(Box::new(src));
        o
    } else {
        if g.vec_repeat > 1 {
            let data: Vec<T> = (0..g.src_len as u64).map(|i| T::from(10 + i)).collect();
            let (src, o) = rustradio::vector_source::VectorSourceBuilder::new(data)
                .repeat(rustradio::Repeat::finite(g.vec_repeat))
                .build();
            blocks.push(Box::new(src));
            o
        } else {
            let data: Vec<T> = g.source_data().iter().map(|x| T::from(*x)).collect();
            let (src, o) = VectorSource::new(data);
            blocks.push(Box::new(src));
            o
        }
    };
    match &g.shape {
        Shape::Chain(st) => {
            for s in st {
                let (b, o) = stage_block(s, prev);
                blocks.push(b);
                prev = o;
            }
            let sink = VectorSink::new(prev, SINK_MAX);
            sinks.push(sink.hook());
            blocks.push(Box::new(sink));
        }
        Shape::Tee(a, b) | Shape::Diamond(a, b) => {
            let (tee, mut pa, mut pb) = Tee::new(prev);
            blocks.push(Box::new(tee));
            if let Some(s) = a {
                let (b, o) = stage_block(s, pa);
                blocks.push(b);
                pa = o;
            }
            if let Some(s) = b {
                let (b, o) = stage_block(s, pb);
                blocks.push(b);
                pb = o;
            }
            if matches!(g.shape, Shape::Tee(..)) {
                let s1 = VectorSink::new(pa, SINK_MAX);
                let s2 = VectorSink::new(pb, SINK_MAX);
                sinks.push(s1.hook());
                sinks.push(s2.hook());
                blocks.push(Box::new(s1));
                blocks.push(Box::new(s2));
            } else {
                let (add, o) = Add::new(pa, pb);
                blocks.push(Box::new(add));
                let s1 = VectorSink::new(o, SINK_MAX);
                sinks.push(s1.hook());
                blocks.push(Box::new(s1));
            }
        }
        Shape::Merge(n) => {
            let other: Vec<T> = (0..*n as u64).map(|i| T::from(1000 + i)).collect();
            let (src2, p2) = VectorSource::new(other);
            blocks.push(Box::new(src2));
            let (add, o) = Add::new(prev, p2);
            blocks.push(Box::new(add));
            let s1 = VectorSink::new(o, SINK_MAX);
            sinks.push(s1.hook());
            blocks.push(Box::new(s1));
        }
        Shape::VecPackets(_) => unreachable!(),
        Shape::ToFile => {
            let sink = rustradio::file_sink::FileSink::new(prev, tofile_path(), rustradio::file_sink::Mode::Overwrite).unwrap();
            blocks.push(Box::new(sink));
        }
        Shape::PacketsTail(k, tail) => {
            let (mark, o) = MarkBursts::with_period(prev, *k, k + 2 + tail);
            blocks.push(Box::new(mark));
            let (s2p, po) = StreamToPdu::new(o, "burst", 1000, *tail);
            blocks.push(Box::new(s2p));
            let (v2s, o) = VecToStream::new(po);
            blocks.push(Box::new(v2s));
            let s1 = VectorSink::new(o, SINK_MAX);
            sinks.push(s1.hook());
            blocks.push(Box::new(s1));
        }
        Shape::Packets(k) => {
            let (mark, o) = MarkBursts::new(prev, *k);
            blocks.push(Box::new(mark));
            let (s2p, po) = StreamToPdu::new(o, "burst", 1000, 0);
            blocks.push(Box::new(s2p));
            let (v2s, o) = VecToStream::new(po);
            blocks.push(Box::new(v2s));
            let s1 = VectorSink::new(o, SINK_MAX);
            sinks.push(s1.hook());
            blocks.push(Box::new(s1));
        }
    }
    assert_eq!(blocks.len(), g.nblocks());
    Built { blocks, sinks }
}

/// Harness block: copies samples and reports a stream wait from the very call
/// in which it moved data (as several library blocks do).
#[derive(rustradio::rustradio_macros::Block)]
#[rustradio(new)]
pub struct MoveWait<T: Copy> {
    #[rustradio(in)]
    src: ReadStream<T>,
    #[rustradio(out)]
    dst: WriteStream<T>,
}

impl<T: Copy> Block for MoveWait<T> {
    fn work(&mut self) -> Result<BlockRet> {
        let (i, tags) = self.src.read_buf()?;
        if i.is_empty() {
            return Ok(BlockRet::WaitForStream(&self.src, 1));
        }
        let mut o = self.dst.write_buf()?;
        if o.is_empty() {
            return Ok(BlockRet::WaitForStream(&self.dst, 1));
        }
        let n = i.len().min(o.len());
        o.slice()[..n].copy_from_slice(&i.slice()[..n]);
        let tags: Vec<_> = tags.into_iter().filter(|t| t.pos() < n).collect();
        let more_in = i.len() > n;
        i.consume(n);
        o.produce(n, &tags);
        if more_in {
            Ok(BlockRet::WaitForStream(&self.dst, 1))
        } else {
            Ok(BlockRet::WaitForStream(&self.src, 1))
        }
    }
}

/// Harness block: copies samples and reports WaitForFunc from the very call in
/// which it moved data.
#[derive(rustradio::rustradio_macros::Block)]
#[rustradio(new)]
pub struct MoveWaitFunc<T: Copy> {
    #[rustradio(in)]
    src: ReadStream<T>,
    #[rustradio(out)]
    dst: WriteStream<T>,
}

impl<T: Copy> Block for MoveWaitFunc<T> {
    fn work(&mut self) -> Result<BlockRet> {
        let (i, _tags) = self.src.read_buf()?;
        let mut o = self.dst.write_buf()?;
        let n = i.len().min(o.len());
        if n == 0 {
            return Ok(if i.is_empty() {
                BlockRet::WaitForStream(&self.src, 1)
            } else {
                BlockRet::WaitForStream(&self.dst, 1)
            });
        }
        o.slice()[..n].copy_from_slice(&i.slice()[..n]);
        i.consume(n);
        o.produce(n, &[]);
        Ok(BlockRet::WaitForFunc(Box::new(|| {})))
    }
}

/// Harness block: derive-generated sync identity.
#[derive(rustradio::rustradio_macros::Block)]
#[rustradio(new, sync)]
pub struct SyncId<T: Copy> {
    #[rustradio(in)]
    src: ReadStream<T>,
    #[rustradio(out)]
    dst: WriteStream<T>,
}

impl<T: Copy> SyncId<T> {
    fn process_sync(&self, a: T) -> T {
        a
    }
}

/// Harness block: tags bursts of `k` samples: tag `burst`=true on the first
/// sample of each burst, `burst`=false on the sample after its last one.
pub struct MarkBursts<T: Copy> {
    src: ReadStream<T>,
    dst: WriteStream<T>,
    k: usize,
    period: usize,
    pos: usize,
}

impl<T: Copy> MarkBursts<T> {
    pub fn new(src: ReadStream<T>, k: usize) -> (Self, ReadStream<T>) {
        Self::with_period(src, k, k + 1)
    }
    /// Bursts of `k` samples every `period` samples.
    pub fn with_period(src: ReadStream<T>, k: usize, period: usize) -> (Self, ReadStream<T>) {
        let (dst, r) = rustradio::stream::new_stream();
        (Self { src, dst, k, period, pos: 0 }, r)
    }
}

impl<T: Copy> BlockName for MarkBursts<T> {
    fn block_name(&self) -> &str {
        "MarkBursts"
    }
}

impl<T: Copy> BlockEOF for MarkBursts<T> {
    fn eof(&mut self) -> bool {
        self.src.eof()
    }
}

impl<T: Copy> Block for MarkBursts<T> {
    fn work(&mut self) -> Result<BlockRet> {
        use rustradio::stream::{Tag, TagValue};
        let (i, _) = self.src.read_buf()?;
        if i.is_empty() {
            return Ok(BlockRet::WaitForStream(&self.src, 1));
        }
        let mut o = self.dst.write_buf()?;
        if o.is_empty() {
            return Ok(BlockRet::WaitForStream(&self.dst, 1));
        }
        let n = i.len().min(o.len());
        let mut tags = vec![];
        for j in 0..n {
            o.slice()[j] = i.slice()[j];
            let ph = (self.pos + j) % self.period;
            if ph == 0 {
                tags.push(Tag::new(j, "burst", TagValue::Bool(true)));
            } else if ph == self.k {
                tags.push(Tag::new(j, "burst", TagValue::Bool(false)));
            }
        }
        self.pos += n;
        i.consume(n);
        o.produce(n, &tags);
        Ok(BlockRet::Again)
    }
}

/// Harness block: pushes its packets, one per call, then reports EOF.
pub struct PacketSource<T> {
    dst: rustradio::stream::NCWriteStream<Vec<T>>,
    packets: std::collections::VecDeque<Vec<T>>,
}

impl<T> PacketSource<T> {
    pub fn new(packets: Vec<Vec<T>>) -> (Self, rustradio::stream::NCReadStream<Vec<T>>) {
        let (dst, r) = rustradio::stream::new_nocopy_stream();
        (Self { dst, packets: packets.into() }, r)
    }
}
impl<T> BlockName for PacketSource<T> {
    fn block_name(&self) -> &str {
        "PacketSource"
    }
}
impl<T> BlockEOF for PacketSource<T> {}
impl<T> Block for PacketSource<T> {
    fn work(&mut self) -> Result<BlockRet> {
        match self.packets.pop_front() {
            Some(p) => {
                self.dst.push(p, &[]);
                Ok(if self.packets.is_empty() { BlockRet::EOF } else { BlockRet::Again })
            }
            None => Ok(BlockRet::EOF),
        }
    }
}

/// Harness block: an endless source that produces one sample per call and
/// answers Again as long as there is room.
pub struct AgainSource<T: Copy> {
    dst: WriteStream<T>,
    val: T,
}
impl<T: Copy> AgainSource<T> {
    pub fn new(val: T) -> (Self, ReadStream<T>) {
        let (dst, r) = rustradio::stream::new_stream();
        (Self { dst, val }, r)
    }
}
impl<T: Copy> BlockName for AgainSource<T> {
    fn block_name(&self) -> &str {
        "AgainSource"
    }
}
impl<T: Copy> BlockEOF for AgainSource<T> {}
impl<T: Copy> Block for AgainSource<T> {
    fn work(&mut self) -> Result<BlockRet> {
        let mut o = self.dst.write_buf()?;
        if o.is_empty() {
            return Ok(BlockRet::WaitForStream(&self.dst, 1));
        }
        o.slice()[0] = self.val;
        o.produce(1, &[]);
        Ok(BlockRet::Again)
    }
}

/// Harness block: a source with nothing to deliver yet (a socket without
/// data, say): answers Pending on every call.
pub struct PendingSource<T: Copy> {
    _dst: WriteStream<T>,
}
impl<T: Copy> PendingSource<T> {
    pub fn new() -> (Self, ReadStream<T>) {
        let (dst, r) = rustradio::stream::new_stream();
        (Self { _dst: dst }, r)
    }
}
impl<T: Copy> BlockName for PendingSource<T> {
    fn block_name(&self) -> &str {
        "PendingSource"
    }
}
impl<T: Copy> BlockEOF for PendingSource<T> {}
impl<T: Copy> Block for PendingSource<T> {
    fn work(&mut self) -> Result<BlockRet> {
        Ok(BlockRet::Pending)
    }
}

/// Wrapper counting work() calls, and optionally failing on the k-th.
pub struct Instrumented {
    pub inner: Box<dyn Block + Send>,
    pub calls: std::sync::Arc<std::sync::atomic::AtomicUsize>,
    /// Calls started after the epoch flag was raised.
    pub late_calls: std::sync::Arc<std::sync::atomic::AtomicUsize>,
    pub epoch: std::sync::Arc<std::sync::atomic::AtomicBool>,
    pub fail_on: Option<usize>,
    /// Number of wrapped blocks not dropped yet. The multithreaded runner
    /// moves each block into its thread, so this counts block threads that
    /// have not finished.
    pub alive: std::sync::Arc<std::sync::atomic::AtomicUsize>,
}

impl Drop for Instrumented {
    fn drop(&mut self) {
        self.alive.fetch_sub(1, std::sync::atomic::Ordering::SeqCst);
    }
}

impl BlockName for Instrumented {
    fn block_name(&self) -> &str {
        self.inner.block_name()
    }
}
impl BlockEOF for Instrumented {
    fn eof(&mut self) -> bool {
        self.inner.eof()
    }
}
impl Block for Instrumented {
    fn work(&mut self) -> Result<BlockRet> {
        use std::sync::atomic::Ordering::SeqCst;
        let n = self.calls.fetch_add(1, SeqCst) + 1;
        if self.epoch.load(SeqCst) {
            self.late_calls.fetch_add(1, SeqCst);
        }
        // A real work() takes time and stream locks; let other threads (a
        // canceller, say) run while this call is in progress.
        rustradio::vsync::point();
        if Some(n) == self.fail_on {
            return Err(rustradio::Error::msg(format!("injected failure on call {n}")));
        }
        self.inner.work()
    }
}
