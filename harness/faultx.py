#!/usr/bin/env python3
"""E5: crash-point and fault-point enumeration with strace (C17, C18).

  faultx.py C17 <tier>      file sink: open-mode table; SIGKILL at every write syscall
  faultx.py C18 <tier>      stream setup: an error injected at every setup syscall
  faultx.py replay <file>

Prints one `VERIF-RESULT {json}` line, like the Rust engines.
"""
import json
import os
import re
import shutil
import subprocess
import sys
import tempfile
import time

HERE = os.path.dirname(os.path.abspath(__file__))
CHILD = os.path.join(HERE, "target-seq", "release", "vchild")


def new_report(prop):
    return {"property": prop, "engine": "faultx", "evaluations": 0, "distinct_nontrivial": 0,
            "states": 0, "transitions": 0, "traces_validated_against_impl": 0, "rule": "",
            "samples": [], "exhaustive": True, "extra": {}, "assumptions": [], "caps": [],
            "violations": [], "wall_s": 0.0}


def violate(rep, sig, msg, replay):
    if any(v["signature"] == sig for v in rep["violations"]):
        return
    rep["violations"].append({"signature": sig, "message": msg, "replay": replay})


TEXTS = ["plain", "Hej p\u00e5 dig", "\u20ac", "\ufffdx", "73 de \U0001f4e1"]


def expected_stream(chunks, kind):
    """Bytes the sink must have written after all chunks."""
    out = b""
    serial = 0
    if kind == "packet-string":
        for _ in range(sum(chunks)):
            out += TEXTS[serial % len(TEXTS)].encode("utf-8") + b"\n"
            serial += 1
        return out
    for c in chunks:
        for _ in range(c):
            if kind.startswith("packet"):
                # Packets are big endian (packet 10 ends in 0x0a itself), each
                # followed by a newline.
                out += serial.to_bytes(4, "big") + b"\n"
            else:
                out += serial.to_bytes(4, "little")
            serial += 1
    return out


def run_child(args, strace=None, timeout=60):
    cmd = [CHILD] + args
    if strace:
        cmd = ["strace", "-f"] + strace + cmd
    r = subprocess.run(cmd, stdout=subprocess.PIPE, stderr=subprocess.PIPE, text=True, timeout=timeout)
    return r


WRITE_RE = re.compile(r'^\d+\s+write\((\d+), "((?:[^"\\]|\\.)*)"')


def record_writes(args, tmp):
    log = os.path.join(tmp, "rec.log")
    r = run_child(args, ["-e", "trace=write", "-o", log])
    writes = []
    for line in open(log):
        m = WRITE_RE.match(line)
        if m:
            writes.append((int(m.group(1)), m.group(2)))
    return r, writes


# ---------------------------------------------------------------------------
# C17
# ---------------------------------------------------------------------------
def c17_modes(rep, tmp):
    old = b"OLD-CONTENT-" * 9  # longer than anything the runs below write
    for kind, chunks in (("stream", [2, 1]), ("packet", [2, 1]), ("stream", []), ("packet", []), ("stream", [40])):
        new = expected_stream(chunks, kind)
        for mode in ("create", "overwrite", "append"):
            for state in ("absent", "empty", "nonempty", "directory", "missing-dir", "dangling-symlink"):
                if state == "dangling-symlink" and mode != "create":
                    # Only create's answer is pinned down: the name exists
                    # (O_EXCL semantics), so create has to fail.
                    continue
                d = os.path.join(tmp, "modes")
                shutil.rmtree(d, ignore_errors=True)
                os.makedirs(d)
                path = os.path.join(d, "out.bin")
                if state == "empty":
                    open(path, "wb").close()
                elif state == "nonempty":
                    open(path, "wb").write(old)
                elif state == "directory":
                    os.makedirs(path)
                elif state == "missing-dir":
                    path = os.path.join(d, "nope", "out.bin")
                elif state == "dangling-symlink":
                    os.symlink(os.path.join(d, "target-that-does-not-exist"), path)
                r = run_child(["filesink", path, mode, kind] + [str(c) for c in chunks])
                rep["evaluations"] += 1
                rep["distinct_nontrivial"] += 1
                ok = "CTOR-OK" in r.stdout
                crashed = r.returncode != 0
                exists_before = state in ("empty", "nonempty")
                if state in ("directory", "missing-dir", "dangling-symlink"):
                    want_ok, want_bytes = False, None
                elif mode == "create":
                    want_ok = not exists_before
                    want_bytes = new if want_ok else (b"" if state == "empty" else old)
                elif mode == "overwrite":
                    want_ok, want_bytes = True, new
                else:
                    want_ok = True
                    want_bytes = (old if state == "nonempty" else b"") + new
                case = {"engine": "faultx", "what": "modes", "kind": kind, "mode": mode, "state": state, "chunks": chunks}
                sig = f"C17/FileSink-{kind}/mode-{mode}/{state}"
                if crashed:
                    violate(rep, sig + "/crash", f"{case}: child exited {r.returncode}: {r.stderr[-300:]}", case)
                    continue
                if ok != want_ok:
                    violate(rep, sig + ("/refused" if want_ok else "/accepted"),
                            f"{case}: constructor {'succeeded' if ok else 'failed: ' + r.stdout.strip()[:200]}, "
                            f"documentation says it must {'succeed' if want_ok else 'fail'}", case)
                    continue
                if want_bytes is not None:
                    got = open(path, "rb").read() if os.path.isfile(path) else None
                    if got != want_bytes:
                        violate(rep, sig + "/content", f"{case}: file holds {got!r}, want {want_bytes!r}", case)
                if state == "directory" and not os.path.isdir(path):
                    violate(rep, sig + "/content", f"{case}: the directory is gone", case)
                if state == "dangling-symlink" and os.path.exists(os.path.join(d, "target-that-does-not-exist")):
                    violate(rep, sig + "/content", f"{case}: a file was created through the dangling link", case)


def c17_kill(rep, tmp, tier, only=None):
    configs = []
    for kind in ("stream", "packet"):
        for mode in ("overwrite", "append", "create"):
            # The child's stream holds 4096 u32 samples: chunks of 2048+ samples
            # are 8 KiB and more in a single work() call, beyond what a
            # default-sized BufWriter buffers.
            chunks = [1, 3, 2048, 2500, 5, 4096, 1] if kind == "stream" else [1, 2, 1]
            if tier == "thorough" and kind == "stream":
                configs.append((kind, mode, [1024, 4095, 7, 1, 3000, 2]))
            configs.append((kind, mode, chunks))
    # Bursts of packets queued before the sink runs; and a stream large enough
    # for one work() call to find more than 64 Ki samples waiting.
    configs.append(("packet-burst", "overwrite", [3, 1, 4]))
    configs.append(("packet-burst", "append", [2, 5]))
    # Enough packets for one that ends in a newline byte (packet 10).
    configs.append(("packet", "overwrite", [11, 1]))
    # Text packets, not all ASCII.
    configs.append(("packet-string", "overwrite", [3, 4]))
    # (512 pages: one work() call can find more than a megabyte waiting.)
    configs.append(("stream-big", "overwrite", [100000, 3, 300000, 70000]))
    # One worker per configuration (each in a directory of its own); the
    # results are merged in configuration order.
    import concurrent.futures
    todo = [(i, c) for i, c in enumerate(configs)
            if not only or (only["kind"], only["mode"], only["chunks"]) == c]

    def one(ic):
        i, (kind, mode, chunks) = ic
        sub = new_report(rep["property"])
        c17_kill_config(sub, os.path.join(tmp, f"kill-{i}"), tmp, kind, mode, chunks, only)
        return sub

    with concurrent.futures.ThreadPoolExecutor(max_workers=8) as ex:
        subs = list(ex.map(one, todo))
    for sub in subs:
        for k in ("evaluations", "transitions", "distinct_nontrivial"):
            rep[k] += sub[k]
        rep["caps"] += sub["caps"]
        rep["exhaustive"] = rep["exhaustive"] and sub["exhaustive"]
        for v in sub["violations"]:
            violate(rep, v["signature"], v["message"], v["replay"])
        for smp in sub["samples"]:
            if len(rep["samples"]) < 4:
                rep["samples"].append(smp)


def c17_kill_config(rep, d, tmp, kind, mode, chunks, only):
    if True:
        shutil.rmtree(d, ignore_errors=True)
        os.makedirs(d)
        tmp = d
        path = os.path.join(d, "out.bin")
        prefix = b""
        if mode == "append":
            prefix = b"EXISTING"
        args = ["filesink", path, mode, kind] + [str(c) for c in chunks]

        def reset():
            if os.path.exists(path):
                os.remove(path)
            if mode == "append":
                open(path, "wb").write(prefix)

        reset()
        r1, w1 = record_writes(args, tmp)
        reset()
        r2, w2 = record_writes(args, tmp)
        if w1 != w2 or r1.returncode != 0:
            rep["caps"].append(f"C17 {kind}/{mode}: recording not reproducible; skipped")
            rep["exhaustive"] = False
            return
        want = prefix + expected_stream(chunks, kind)
        got = open(path, "rb").read()
        case0 = {"engine": "faultx", "what": "kill", "kind": kind, "mode": mode, "chunks": chunks}
        if got != want:
            violate(rep, f"C17/FileSink-{kind}/content-no-kill",
                    f"{case0}: without any kill the file holds {len(got)} bytes, want {len(want)}", case0)
            return
        n = len(w1)
        ks = range(1, n + 2) if not only else [only["k"]]
        for k in ks:
            reset()
            r = run_child(args, ["-e", "trace=write", "-e", f"inject=write:signal=SIGKILL:when={k}", "-o", "/dev/null"])
            rep["evaluations"] += 1
            rep["transitions"] += 1
            if k <= n:
                rep["distinct_nontrivial"] += 1
            # Acknowledged = consumed from the stream (upstream sees the
            # space as free), or work() having returned, whichever is later.
            # The packet sink has to take a packet off the queue before it can
            # write it, so there only a returned work() call acknowledges.
            # A packet that has been taken off the queue *before the latest
            # one* was written and flushed by then ("SER k": packet k is being
            # serialised, packets before it are done).
            acked = 0
            for fd, txt in w1[:k - 1]:
                if fd == 999 and (txt.startswith("RETURNED ") or (kind.startswith("stream") and txt.startswith("ACK "))):
                    acked = max(acked, int(txt.split()[1]))
                if fd == 999 and txt.startswith("SER "):
                    acked = max(acked, 5 * int(txt.split()[1]))
            got = open(path, "rb").read() if os.path.exists(path) else b""
            case = dict(case0, k=k)
            body = got[len(prefix):] if got.startswith(prefix) else None
            full = want[len(prefix):]
            if body is None or not full.startswith(body):
                violate(rep, f"C17/FileSink-{kind}/not-a-prefix",
                        f"{case}: killed at write #{k}: file content is not a prefix of the serialised stream: {got[:64]!r}",
                        case)
            elif len(body) < acked:
                violate(rep, f"C17/FileSink-{kind}/acknowledged-data-missing",
                        f"{case}: killed at write #{k}: {acked} bytes were acknowledged as consumed, file holds {len(body)}",
                        case)
        if len(rep["samples"]) < 4:
            rep["samples"].append({"kind": kind, "mode": mode, "chunks": chunks, "write_syscalls": n,
                                   "kill_points": n + 1})


# ---------------------------------------------------------------------------
# C18
# ---------------------------------------------------------------------------
SYS_RE = re.compile(r'^\d+\s+(\w+)\(')


def record_syscalls(args, tmp, names):
    log = os.path.join(tmp, "rec.log")
    r = run_child(args, ["-e", "trace=" + ",".join(names + ["write"]), "-o", log])
    seq = []
    started = False
    counts = {}
    for line in open(log):
        m = SYS_RE.match(line)
        if not m:
            continue
        name = m.group(1)
        counts[name] = counts.get(name, 0) + 1
        if name == "write":
            if '"START"' in line:
                started = True
            if '"MADE"' in line:
                started = False
            continue
        if started:
            seq.append((name, counts[name]))
    return r, seq


def c18_faults(rep, tmp, only=None):
    names = ["openat", "ftruncate", "mmap"]
    errs = {"openat": "EMFILE", "ftruncate": "ENOSPC", "mmap": "ENOMEM"}
    for sizes in (["4096"], ["4096", "8192"], ["12288", "4096", "4096"], ["262144"], ["1048576", "4096"]):
        args = ["mkbuf"] + sizes
        r1, s1 = record_syscalls(args, tmp, names)
        r2, s2 = record_syscalls(args, tmp, names)
        if s1 != s2:
            rep["caps"].append(f"C18 {sizes}: syscall recording not reproducible; skipped")
            rep["exhaustive"] = False
            continue
        for (name, idx) in s1:
            if only and (only["sizes"], only["syscall"], only["index"]) != (sizes, name, idx):
                continue
            r = run_child(args, ["-e", "trace=" + name, "-e", f"inject={name}:error={errs[name]}:when={idx}",
                                 "-o", "/dev/null"])
            rep["evaluations"] += 1
            rep["transitions"] += 1
            rep["distinct_nontrivial"] += 1
            case = {"engine": "faultx", "what": "setup-fault", "sizes": sizes, "syscall": name, "index": idx}
            out = r.stdout
            sig = f"C18/Buffer/setup-fault-{name}"
            results = [l for l in out.splitlines() if l.startswith("RESULT")]
            if r.returncode != 0 or "RESULT panic" in out:
                violate(rep, sig + "/panic", f"{case}: {errs[name]} at {name} #{idx}: child panicked or died "
                        f"(exit {r.returncode}): {out[-200:]} {r.stderr[-200:]}", case)
                continue
            if len(results) != len(sizes) or not any(l.startswith("RESULT err") for l in results):
                violate(rep, sig + "/not-reported", f"{case}: injected {errs[name]} but results are {results}", case)
                continue
            live = sum(1 for l in results if l == "RESULT ok")
            m = re.search(r"LIVE (\d+) maps\+(-?\d+) fds\+(-?\d+)", out)
            a = re.search(r"AFTER maps\+(-?\d+) fds\+(-?\d+)", out)
            if not m or not a:
                violate(rep, sig + "/no-report", f"{case}: child output incomplete: {out[-200:]}", case)
                continue
            if int(m.group(2)) != 2 * live or int(m.group(3)) != 0:
                violate(rep, sig + "/leak", f"{case}: {live} buffers alive but mappings +{m.group(2)}, "
                        f"descriptors +{m.group(3)} (want +{2 * live}, +0)", case)
            elif int(a.group(1)) != 0 or int(a.group(2)) != 0:
                violate(rep, sig + "/leak", f"{case}: after dropping everything: mappings +{a.group(1)}, "
                        f"descriptors +{a.group(2)}", case)
        if len(rep["samples"]) < 3:
            rep["samples"].append({"sizes": sizes, "setup_syscalls": [f"{n}#{i}" for n, i in s1]})


MAP_RE = re.compile(r'^\d+\s+(mmap|munmap)\((0x[0-9a-f]+|NULL), (\d+)[^)]*\)\s+= (0x[0-9a-f]+|-?\d+)')


def c18_unmap_ownership(rep, tmp, only=None):
    """Address-space ownership over the syscall trace of stream setup and
    teardown: a range that this process has unmapped and not mapped again is
    no longer its own (another thread may have been given it). Unmapping it a
    second time is how a refused stream tears down somebody else's."""
    for sizes in (["4097"], ["100"], ["4096", "4097", "8192"], ["12289", "4096"], ["8192", "6000", "4096", "4100"]):
        if only and only["sizes"] != sizes:
            continue
        log = os.path.join(tmp, "own.log")
        r = run_child(["mkbuf"] + sizes, ["-e", "trace=mmap,munmap,write", "-o", log])
        rep["evaluations"] += 1
        rep["transitions"] += 1
        rep["distinct_nontrivial"] += 1
        case = {"engine": "faultx", "what": "unmap-ownership", "sizes": sizes}
        if r.returncode != 0:
            violate(rep, "C18/Buffer/unmap-ownership/crash", f"{case}: child exited {r.returncode}: {r.stderr[-200:]}", case)
            continue
        started = False
        freed = []   # [start, end) ranges unmapped since START and not mapped again
        bad = None
        for line in open(log):
            if '"START"' in line:
                started = True
                continue
            if '"DONE"' in line:
                break
            if not started:
                continue
            m = MAP_RE.match(line)
            if not m:
                continue
            name, addr, length, ret = m.group(1), m.group(2), int(m.group(3)), m.group(4)
            if name == "mmap":
                if not ret.startswith("0x"):
                    continue
                a = int(ret, 16)
                b = a + length
                # Whatever is mapped now is owned again.
                nf = []
                for (x, y) in freed:
                    if y <= a or x >= b:
                        nf.append((x, y))
                    else:
                        if x < a:
                            nf.append((x, a))
                        if y > b:
                            nf.append((b, y))
                freed = nf
            else:
                if ret != "0" or addr == "NULL":
                    continue
                a = int(addr, 16)
                b = a + length
                hit = [(x, y) for (x, y) in freed if not (y <= a or x >= b)]
                if hit and bad is None:
                    bad = f"munmap({addr}, {length}) covers {hex(hit[0][0])}..{hex(hit[0][1])}, which was already unmapped and not mapped again"
                freed.append((a, b))
        if bad:
            violate(rep, "C18/Buffer/unmap-ownership/double-unmap", f"{case}: {bad}", case)


def main():
    t0 = time.time()
    if sys.argv[1] == "replay":
        v = json.load(open(sys.argv[2]))
        case = v["replay"]
        prop = v["property"]
        rep = new_report(prop)
        tmp = tempfile.mkdtemp(prefix="verif-faultx-")
        try:
            if case["what"] == "modes":
                c17_modes(rep, tmp)
                rep["violations"] = [x for x in rep["violations"] if x["replay"] == case]
            elif case["what"] == "kill":
                c17_kill(rep, tmp, "thorough", only=case)
            elif case["what"] == "unmap-ownership":
                c18_unmap_ownership(rep, tmp, only=case)
            else:
                c18_faults(rep, tmp, only=case)
        finally:
            shutil.rmtree(tmp, ignore_errors=True)
        if rep["violations"]:
            print("replay: VIOLATION reproduced:", rep["violations"][0]["signature"])
            sys.exit(1)
        print("replay: no violation")
        sys.exit(0)
    prop, tier = sys.argv[1], sys.argv[2]
    rep = new_report(prop)
    tmp = tempfile.mkdtemp(prefix="verif-faultx-")
    try:
        if prop == "C17":
            rep["rule"] = ("open modes: {Create, Overwrite, Append} x {absent, empty, non-empty, directory, missing parent} x "
                           "{stream sink, packet sink}, constructor result and final file bytes against the documented table; "
                           "durability: a child streams chunks through the sink and marks each acknowledged amount; for EVERY "
                           "write syscall k of the recorded history (and 'after the last') the child is re-run and SIGKILLed at "
                           "entry of syscall k; the file must be a prefix of the serialised stream holding at least the "
                           "acknowledged bytes. Each (configuration, k) is a distinct case.")
            rep["assumptions"] = ["process kill, not power loss: data handed to write(2) counts as in the file",
                                  "kernel-internal partial writes give shorter prefixes of the same stream",
                                  "checks run as root, so permission-based 'unwritable' states are replaced by a directory and a missing parent directory"]
            c17_modes(rep, tmp)
            c17_kill(rep, tmp, tier)
        else:
            rep["rule"] = ("for 1-3 buffers created in a row, every openat/ftruncate/mmap syscall of the recorded setup history "
                           "gets an error injected (EMFILE/ENOSPC/ENOMEM) in a re-run; the affected constructor must return Err "
                           "(no panic), live buffers must account for exactly two mappings and no descriptor each, and after "
                           "dropping everything the counts are back at the baseline; plus, over the mmap/munmap trace of setups that are "
                           "refused, no range is unmapped that was already unmapped and not mapped again")
            rep["assumptions"] = ["mmap with MAP_FIXED returning a different address is not injectable (it cannot happen on Linux)"]
            c18_faults(rep, tmp)
            c18_unmap_ownership(rep, tmp)
    finally:
        shutil.rmtree(tmp, ignore_errors=True)
    rep["states"] = rep["evaluations"]
    rep["traces_validated_against_impl"] = rep["evaluations"]
    rep["wall_s"] = time.time() - t0
    print("VERIF-RESULT " + json.dumps(rep))


if __name__ == "__main__":
    main()
