//! Child processes for the fault-injection engine (run under strace).
//!
//!   vchild filesink <path> <create|overwrite|append> <stream|packet> <chunk sizes...>
//!   vchild mkbuf <bytes> [<bytes>...]
use std::io::Write;

use rustradio::block::Block;
use rustradio::blocks::{FileSink, NoCopyFileSink};
use rustradio::file_sink::Mode;
use rustradio::stream::{new_nocopy_stream, new_stream};

/// A marker that shows up in the syscall trace and nowhere else.
fn marker(s: &str) {
    // SAFETY: plain write(2) to a descriptor that is not open.
    unsafe {
        libc::write(999, s.as_ptr() as *const libc::c_void, s.len());
    }
}

static CONSUMED: std::sync::atomic::AtomicUsize = std::sync::atomic::AtomicUsize::new(0);
static UNIT: std::sync::atomic::AtomicUsize = std::sync::atomic::AtomicUsize::new(4);

/// Every consume shows up in the syscall trace, with the number of file
/// bytes that have been acknowledged as consumed so far.
fn on_consume(n: usize) {
    use std::sync::atomic::Ordering::SeqCst;
    let total = CONSUMED.fetch_add(n * UNIT.load(SeqCst), SeqCst) + n * UNIT.load(SeqCst);
    marker(&format!("ACK {total}"));
}

/// Packet type of the packet sink runs. Serialising shows up in the syscall
/// trace: the sink serialises a packet right after taking it off the queue,
/// so "SER k" means packets 0..k-1 were taken before, and packet k just now.
#[derive(Debug, Default, Clone, Copy)]
struct Pkt(u32);

impl rustradio::Sample for Pkt {
    type Type = Pkt;
    fn size() -> usize {
        4
    }
    fn parse(data: &[u8]) -> rustradio::Result<Pkt> {
        Ok(Pkt(u32::from_be_bytes(data.try_into().map_err(|_| rustradio::Error::msg("size"))?)))
    }
    fn serialize(&self) -> Vec<u8> {
        marker(&format!("SER {}", self.0));
        // Big endian: packet 10 ends in a newline byte of its own.
        self.0.to_be_bytes().to_vec()
    }
}

fn count_maps() -> usize {
    std::fs::read_to_string("/proc/self/maps").map(|s| s.lines().count()).unwrap_or(0)
}

fn count_fds() -> usize {
    std::fs::read_dir("/proc/self/fd").map(|d| d.count()).unwrap_or(0)
}

fn main() {
    let args: Vec<String> = std::env::args().collect();
    match args[1].as_str() {
        "filesink" => {
            let path = &args[2];
            let mode = match args[3].as_str() {
                "create" => Mode::Create,
                "overwrite" => Mode::Overwrite,
                _ => Mode::Append,
            };
            let chunks: Vec<usize> = args[5..].iter().map(|s| s.parse().unwrap()).collect();
            // "stream-big": a stream of 512 pages (2 MiB), so that one work() call
            // can find hundreds of thousands of samples waiting.
            let pages = if args[4] == "stream-big" { 512 } else { 4 };
            let capacity = pages * 4096 / 4;
            rustradio::verif::set_default_stream_size(Some(pages * 4096));
            let is_stream = args[4].starts_with("stream");
            UNIT.store(if is_stream { 4 } else { 5 }, std::sync::atomic::Ordering::SeqCst);
            rustradio::verif::set_consume_hook(Some(on_consume));
            let mut total = 0usize;
            let mut serial = 0u32;
            if args[4] == "packet-string" {
                // Text packets, some of them not ASCII: the file holds their
                // UTF-8 bytes, a newline after each.
                let texts = ["plain", "Hej p\u{e5} dig", "\u{20ac}", "\u{fffd}x", "73 de \u{1f4e1}"];
                let (w, r) = new_nocopy_stream::<String>();
                let mut sink = match NoCopyFileSink::<String>::new(r, path, mode) {
                    Ok(s) => s,
                    Err(e) => {
                        println!("CTOR-ERR {e}");
                        return;
                    }
                };
                println!("CTOR-OK");
                std::io::stdout().flush().unwrap();
                marker("START");
                let mut k = 0usize;
                for c in chunks {
                    for _ in 0..c {
                        let t = texts[k % texts.len()];
                        k += 1;
                        w.push(t.to_string(), &[]);
                        sink.work().unwrap();
                        total += t.len() + 1;
                        marker(&format!("RETURNED {total}"));
                    }
                }
                marker("DONE");
                return;
            }
            if is_stream {
                let (w, r) = new_stream::<u32>();
                let mut sink = match FileSink::<u32>::new(r, path, mode) {
                    Ok(s) => s,
                    Err(e) => {
                        println!("CTOR-ERR {e}");
                        return;
                    }
                };
                println!("CTOR-OK");
                std::io::stdout().flush().unwrap();
                marker("START");
                for c in chunks {
                    let mut wb = w.write_buf().unwrap();
                    for i in 0..c {
                        wb.slice()[i] = serial;
                        serial += 1;
                    }
                    wb.produce(c, &[]);
                    // work() until it has consumed everything.
                    loop {
                        sink.work().unwrap();
                        if w.free() == capacity {
                            break;
                        }
                    }
                    total += c * 4;
                    marker(&format!("RETURNED {total}"));
                }
            } else {
                let (w, r) = new_nocopy_stream::<Pkt>();
                let mut sink = match NoCopyFileSink::<Pkt>::new(r, path, mode) {
                    Ok(s) => s,
                    Err(e) => {
                        println!("CTOR-ERR {e}");
                        return;
                    }
                };
                println!("CTOR-OK");
                std::io::stdout().flush().unwrap();
                marker("START");
                let burst = args[4] == "packet-burst";
                for c in chunks {
                    if burst {
                        // The whole chunk is queued before the sink runs.
                        for _ in 0..c {
                            w.push(Pkt(serial), &[]);
                            serial += 1;
                        }
                        while w.verif_len() > 0 {
                            sink.work().unwrap();
                            // Every packet taken off the queue by a returned
                            // call, serialised plus a newline.
                            total = (serial as usize - w.verif_len()) * 5;
                            marker(&format!("RETURNED {total}"));
                        }
                        continue;
                    }
                    for _ in 0..c {
                        w.push(Pkt(serial), &[]);
                        serial += 1;
                        sink.work().unwrap();
                        // Each packet is serialized plus a newline.
                        total += 5;
                        marker(&format!("RETURNED {total}"));
                    }
                }
            }
            marker("DONE");
        }
        "mkbuf" => {
            let sizes: Vec<usize> = args[2..].iter().map(|s| s.parse().unwrap()).collect();
            // Warm up everything that allocates lazily (stdout, tempdir lookup).
            println!("WARM");
            std::io::stdout().flush().unwrap();
            let _ = std::env::temp_dir();
            let (m0, f0) = (count_maps(), count_fds());
            marker("START");
            let mut live = vec![];
            for s in sizes {
                let r = std::panic::catch_unwind(|| rustradio::circular_buffer::Buffer::<u32>::new(s));
                match r {
                    Err(_) => println!("RESULT panic"),
                    Ok(Err(e)) => println!("RESULT err {e}"),
                    Ok(Ok(b)) => {
                        println!("RESULT ok");
                        live.push(b);
                    }
                }
            }
            marker("MADE");
            let (m1, f1) = (count_maps(), count_fds());
            println!("LIVE {} maps+{} fds+{}", live.len(), m1 as i64 - m0 as i64, f1 as i64 - f0 as i64);
            drop(live);
            let (m2, f2) = (count_maps(), count_fds());
            println!("AFTER maps+{} fds+{}", m2 as i64 - m0 as i64, f2 as i64 - f0 as i64);
            marker("DONE");
        }
        _ => panic!("usage"),
    }
}
