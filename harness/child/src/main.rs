fn main(){}
