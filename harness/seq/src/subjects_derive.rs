//! Subjects for C19: blocks defined *here* with the derive macro, in sync and
//! sync_tag mode, with 1..3 inputs and 1..3 outputs, default/into fields, and
//! `new`-only blocks with copy and non-copy outputs.
use std::borrow::Cow;

use rustradio::Result;
use rustradio::block::{Block, BlockEOF, BlockRet};
use rustradio::stream::{NCWriteStream, ReadStream, Tag, TagValue, WriteStream};
use rustradio::verif;
use vcommon::*;

use crate::envcheck::{Spec, Subject};
use crate::envx::*;
use crate::subjects::{InTags, big_starts};

type B = Big2048;

#[derive(rustradio::rustradio_macros::Block)]
#[rustradio(new, sync)]
pub struct D11 {
    #[rustradio(in)]
    a: ReadStream<B>,
    #[rustradio(out)]
    x: WriteStream<B>,
    #[rustradio(default)]
    n: u64,
    #[rustradio(into)]
    k: u64,
}
impl D11 {
    fn process_sync(&mut self, a: B) -> B {
        self.n += 1;
        B::from(a.v + self.k)
    }
}

#[derive(rustradio::rustradio_macros::Block)]
#[rustradio(new, sync)]
pub struct D21 {
    #[rustradio(in)]
    a: ReadStream<B>,
    #[rustradio(in)]
    b: ReadStream<B>,
    #[rustradio(out)]
    x: WriteStream<B>,
}
impl D21 {
    fn process_sync(&self, a: B, b: B) -> B {
        B::from(a.v * 1000 + b.v)
    }
}

#[derive(rustradio::rustradio_macros::Block)]
#[rustradio(new, sync)]
pub struct D12 {
    #[rustradio(in)]
    a: ReadStream<B>,
    #[rustradio(out)]
    x: WriteStream<B>,
    #[rustradio(out)]
    y: WriteStream<B>,
}
impl D12 {
    fn process_sync(&self, a: B) -> (B, B) {
        (B::from(a.v + 1), B::from(a.v + 2))
    }
}

#[derive(rustradio::rustradio_macros::Block)]
#[rustradio(new, sync)]
pub struct D32 {
    #[rustradio(in)]
    a: ReadStream<B>,
    #[rustradio(in)]
    b: ReadStream<B>,
    #[rustradio(in)]
    c: ReadStream<B>,
    #[rustradio(out)]
    x: WriteStream<B>,
    #[rustradio(out)]
    y: WriteStream<B>,
}
impl D32 {
    fn process_sync(&self, a: B, b: B, c: B) -> (B, B) {
        (B::from(a.v * 1000 + b.v), B::from(b.v * 1000 + c.v))
    }
}

#[derive(rustradio::rustradio_macros::Block)]
#[rustradio(new, sync)]
pub struct D23 {
    #[rustradio(in)]
    a: ReadStream<B>,
    #[rustradio(in)]
    b: ReadStream<B>,
    #[rustradio(out)]
    x: WriteStream<B>,
    #[rustradio(out)]
    y: WriteStream<B>,
    #[rustradio(out)]
    z: WriteStream<B>,
}
impl D23 {
    fn process_sync(&self, a: B, b: B) -> (B, B, B) {
        (B::from(a.v), B::from(b.v), B::from(a.v * 1000 + b.v))
    }
}

/// sync_tag with three inputs and three outputs: adds a tag on every sample
/// whose first input is even, and keeps the first input's tags.
#[derive(rustradio::rustradio_macros::Block)]
#[rustradio(new, sync_tag)]
pub struct T33 {
    #[rustradio(in)]
    a: ReadStream<B>,
    #[rustradio(in)]
    b: ReadStream<B>,
    #[rustradio(in)]
    c: ReadStream<B>,
    #[rustradio(out)]
    x: WriteStream<B>,
    #[rustradio(out)]
    y: WriteStream<B>,
    #[rustradio(out)]
    z: WriteStream<B>,
}
impl T33 {
    fn process_sync_tags<'a>(
        &mut self,
        a: B,
        at: &'a [Tag],
        b: B,
        _bt: &'a [Tag],
        c: B,
        _ct: &'a [Tag],
    ) -> (B, B, B, Cow<'a, [Tag]>) {
        let mut t = at.to_vec();
        if a.v % 2 == 0 {
            t.push(Tag::new(0, "even", TagValue::U64(a.v)));
        }
        (B::from(a.v + b.v), B::from(b.v + c.v), B::from(c.v), Cow::Owned(t))
    }
}

/// sync_tag, one in one out.
#[derive(rustradio::rustradio_macros::Block)]
#[rustradio(new, sync_tag)]
pub struct T11 {
    #[rustradio(in)]
    a: ReadStream<B>,
    #[rustradio(out)]
    x: WriteStream<B>,
}
impl T11 {
    fn process_sync_tags<'a>(&mut self, a: B, at: &'a [Tag]) -> (B, Cow<'a, [Tag]>) {
        (a, Cow::Borrowed(at))
    }
}

/// `new` only: hand-written work(), a copy output and a non-copy output. Each
/// output carries its own constant, so the order in which new() returns the
/// read ends is observable.
#[derive(rustradio::rustradio_macros::Block)]
#[rustradio(new)]
pub struct N12 {
    #[rustradio(in)]
    a: ReadStream<B>,
    #[rustradio(out)]
    first: WriteStream<B>,
    #[rustradio(out)]
    second: NCWriteStream<Vec<B>>,
    #[rustradio(out)]
    third: WriteStream<B>,
}
impl Block for N12 {
    fn work(&mut self) -> Result<BlockRet> {
        let (i, _) = self.a.read_buf()?;
        if i.is_empty() {
            return Ok(BlockRet::WaitForStream(&self.a, 1));
        }
        let mut o1 = self.first.write_buf()?;
        if o1.is_empty() {
            return Ok(BlockRet::WaitForStream(&self.first, 1));
        }
        let mut o3 = self.third.write_buf()?;
        if o3.is_empty() {
            return Ok(BlockRet::WaitForStream(&self.third, 1));
        }
        let v = i.slice()[0].v;
        o1.slice()[0] = B::from(1_000_000 + v);
        o3.slice()[0] = B::from(3_000_000 + v);
        i.consume(1);
        o1.produce(1, &[]);
        self.second.push(vec![B::from(2_000_000 + v)], &[]);
        o3.produce(1, &[]);
        Ok(BlockRet::Again)
    }
}

fn bx<Bk: Block + 'static>(b: Bk) -> Box<dyn Block> {
    Box::new(b)
}

fn bv(v: &[u64]) -> Vec<B> {
    v.iter().map(|x| B::from(*x)).collect()
}

fn atags(tags: &InTags) -> Vec<ATag> {
    tags.iter().map(|(i, k, v)| (*i, k.clone(), format!("{v:?}"))).collect()
}

#[allow(clippy::too_many_arguments)]
fn mk(
    block: &str,
    variant: String,
    build: crate::envcheck::BuildFn,
    samples: Vec<Option<Vec<u64>>>,
    packets: Vec<Option<Vec<Vec<u64>>>>,
    tags: Vec<Option<Vec<ATag>>>,
    sync_check: bool,
) -> Subject {
    Subject {
        block: block.into(),
        variant,
        quantum: 1,
        build,
        starts: big_starts(2),
        ref_pages: 8,
        spec: Some(Spec { samples, packets, tags }),
        infinite_source: false,
        horizon: 0,
        no_retire_check: false,
        warmup: vec![],
        horizon_delta: 0,
        prefix_spec: false,
        sync_check,
    }
}

pub fn derive_subjects(tagsets: &[InTags]) -> Vec<Subject> {
    let mut v = Vec::new();
    let a: Vec<u64> = vec![10, 11, 12, 13, 14];
    let b: Vec<u64> = vec![20, 21, 22, 23, 24];
    let c: Vec<u64> = vec![30, 31, 32, 33, 34];
    let other: InTags = vec![(1, "other".into(), TagValue::Bool(true))];
    for tags in tagsets {
        let tv = format!("tags={:?}", tags.iter().map(|t| (t.0, t.1.as_str())).collect::<Vec<_>>());
        let id = Some(atags(tags));
        {
            let (a2, t2) = (a.clone(), tags.clone());
            v.push(mk(
                "derive-sync-1x1",
                tv.clone(),
                Box::new(move |st| {
                    verif::clear_stream_specs();
                    let (ia, ra) = sin(st, bv(&a2), t2.clone());
                    plan_out(st, 1);
                    let (blk, x) = D11::new(ra, 7u32);
                    verif::clear_stream_specs();
                    Instance { block: bx(blk), ins: vec![ia], outs: vec![sout(st, x)] }
                }),
                vec![Some(a.iter().map(|x| x + 7).collect())],
                vec![],
                vec![id.clone()],
                true,
            ));
        }
        {
            let (a2, b2, t2, o2) = (a.clone(), b.clone(), tags.clone(), other.clone());
            v.push(mk(
                "derive-sync-2x1",
                tv.clone(),
                Box::new(move |st| {
                    verif::clear_stream_specs();
                    let (ia, ra) = sin(st, bv(&a2), t2.clone());
                    let (ib, rb) = sin(st, bv(&b2), o2.clone());
                    plan_out(st, 1);
                    let (blk, x) = D21::new(ra, rb);
                    verif::clear_stream_specs();
                    Instance { block: bx(blk), ins: vec![ia, ib], outs: vec![sout(st, x)] }
                }),
                vec![Some(a.iter().zip(&b).map(|(p, q)| p * 1000 + q).collect())],
                vec![],
                vec![id.clone()],
                true,
            ));
        }
        {
            let (a2, t2) = (a.clone(), tags.clone());
            v.push(mk(
                "derive-sync-1x2",
                tv.clone(),
                Box::new(move |st| {
                    verif::clear_stream_specs();
                    let (ia, ra) = sin(st, bv(&a2), t2.clone());
                    plan_out(st, 2);
                    let (blk, x, y) = D12::new(ra);
                    verif::clear_stream_specs();
                    Instance { block: bx(blk), ins: vec![ia], outs: vec![sout(st, x), sout(st, y)] }
                }),
                vec![Some(a.iter().map(|x| x + 1).collect()), Some(a.iter().map(|x| x + 2).collect())],
                vec![],
                vec![id.clone(), id.clone()],
                true,
            ));
        }
        {
            let (a2, b2, c2, t2, o2) = (a.clone(), b.clone(), c.clone(), tags.clone(), other.clone());
            v.push(mk(
                "derive-sync-3x2",
                tv.clone(),
                Box::new(move |st| {
                    verif::clear_stream_specs();
                    let (ia, ra) = sin(st, bv(&a2), t2.clone());
                    let (ib, rb) = sin(st, bv(&b2), o2.clone());
                    let (ic, rc) = sin(st, bv(&c2), vec![]);
                    plan_out(st, 2);
                    let (blk, x, y) = D32::new(ra, rb, rc);
                    verif::clear_stream_specs();
                    Instance { block: bx(blk), ins: vec![ia, ib, ic], outs: vec![sout(st, x), sout(st, y)] }
                }),
                vec![
                    Some(a.iter().zip(&b).map(|(p, q)| p * 1000 + q).collect()),
                    Some(b.iter().zip(&c).map(|(p, q)| p * 1000 + q).collect()),
                ],
                vec![],
                vec![id.clone(), id.clone()],
                true,
            ));
        }
        {
            let (a2, b2, t2, o2) = (a.clone(), b.clone(), tags.clone(), other.clone());
            v.push(mk(
                "derive-sync-2x3",
                tv.clone(),
                Box::new(move |st| {
                    verif::clear_stream_specs();
                    let (ia, ra) = sin(st, bv(&a2), t2.clone());
                    let (ib, rb) = sin(st, bv(&b2), o2.clone());
                    plan_out(st, 3);
                    let (blk, x, y, z) = D23::new(ra, rb);
                    verif::clear_stream_specs();
                    Instance { block: bx(blk), ins: vec![ia, ib], outs: vec![sout(st, x), sout(st, y), sout(st, z)] }
                }),
                vec![
                    Some(a.clone()),
                    Some(b.clone()),
                    Some(a.iter().zip(&b).map(|(p, q)| p * 1000 + q).collect()),
                ],
                vec![],
                vec![id.clone(), id.clone(), id.clone()],
                true,
            ));
        }
        {
            let (a2, b2, c2, t2, o2) = (a.clone(), b.clone(), c.clone(), tags.clone(), other.clone());
            let mut want_tags = atags(tags);
            for (i, x) in a.iter().enumerate() {
                if x % 2 == 0 {
                    want_tags.push((i, "even".into(), format!("U64({x})")));
                }
            }
            v.push(mk(
                "derive-sync_tag-3x3",
                tv.clone(),
                Box::new(move |st| {
                    verif::clear_stream_specs();
                    let (ia, ra) = sin(st, bv(&a2), t2.clone());
                    let (ib, rb) = sin(st, bv(&b2), o2.clone());
                    let (ic, rc) = sin(st, bv(&c2), vec![]);
                    plan_out(st, 3);
                    let (blk, x, y, z) = T33::new(ra, rb, rc);
                    verif::clear_stream_specs();
                    Instance { block: bx(blk), ins: vec![ia, ib, ic], outs: vec![sout(st, x), sout(st, y), sout(st, z)] }
                }),
                vec![
                    Some(a.iter().zip(&b).map(|(p, q)| p + q).collect()),
                    Some(b.iter().zip(&c).map(|(p, q)| p + q).collect()),
                    Some(c.clone()),
                ],
                vec![],
                vec![Some(want_tags.clone()), Some(want_tags.clone()), Some(want_tags)],
                true,
            ));
        }
        {
            let (a2, t2) = (a.clone(), tags.clone());
            v.push(mk(
                "derive-sync_tag-1x1",
                tv.clone(),
                Box::new(move |st| {
                    verif::clear_stream_specs();
                    let (ia, ra) = sin(st, bv(&a2), t2.clone());
                    plan_out(st, 1);
                    let (blk, x) = T11::new(ra);
                    verif::clear_stream_specs();
                    Instance { block: bx(blk), ins: vec![ia], outs: vec![sout(st, x)] }
                }),
                vec![Some(a.clone())],
                vec![],
                vec![id.clone()],
                true,
            ));
        }
    }
    // new()-only block: declaration order of the returned read ends.
    {
        let a2 = a.clone();
        v.push(mk(
            "derive-new-copy+noncopy",
            "order of returned streams".into(),
            Box::new(move |st| {
                verif::clear_stream_specs();
                let (ia, ra) = sin(st, bv(&a2), vec![]);
                plan_out(st, 2);
                let (blk, first, second, third) = N12::new(ra);
                verif::clear_stream_specs();
                Instance {
                    block: bx(blk),
                    ins: vec![ia],
                    outs: vec![sout(st, first), pout(second), sout(st, third)],
                }
            }),
            vec![
                Some(a.iter().map(|x| 1_000_000 + x).collect()),
                None,
                Some(a.iter().map(|x| 3_000_000 + x).collect()),
            ],
            vec![None, Some(a.iter().map(|x| vec![2_000_000 + x]).collect()), None],
            vec![None, None, None],
            false,
        ));
    }
    v
}

/// Generated eof(): for n inputs, all combinations of {alive, gone} x
/// {empty, non-empty} per input. True iff all gone and all empty.
pub fn eof_matrix(rep: &mut Report) {
    use serde_json::json;
    let st = Start::plain();
    for n in 1..=3usize {
        // Per input: writer gone or not x fill level {empty, one sample, full}.
        let combos = 6usize.pow(n as u32);
        for combo in 0..combos {
            let bits: Vec<(bool, usize)> = (0..n)
                .map(|i| {
                    let d = (combo / 6usize.pow(i as u32)) % 6;
                    (d % 2 == 1, d / 2)
                })
                .collect();
            verif::clear_stream_specs();
            let mut ins: Vec<Box<dyn InPort>> = vec![];
            let many = || bv(&[1u64; 64]);
            let mut block: Box<dyn Block> = match n {
                1 => {
                    let (ia, ra) = sin(&st, many(), vec![]);
                    ins.push(ia);
                    let (b, _x) = D11::new(ra, 0u64);
                    bx(b)
                }
                2 => {
                    let (ia, ra) = sin(&st, many(), vec![]);
                    let (ib, rb) = sin(&st, many(), vec![]);
                    ins.push(ia);
                    ins.push(ib);
                    let (b, _x) = D21::new(ra, rb);
                    bx(b)
                }
                _ => {
                    let (ia, ra) = sin(&st, many(), vec![]);
                    let (ib, rb) = sin(&st, many(), vec![]);
                    let (ic, rc) = sin(&st, many(), vec![]);
                    ins.push(ia);
                    ins.push(ib);
                    ins.push(ic);
                    let (b, _x, _y) = D32::new(ra, rb, rc);
                    bx(b)
                }
            };
            for (i, (gone, level)) in bits.iter().enumerate() {
                match level {
                    1 => {
                        ins[i].feed(1);
                    }
                    2 => {
                        let c = ins[i].capacity();
                        assert!(c <= 64);
                        ins[i].feed(c);
                        assert_eq!(ins[i].free(), 0);
                    }
                    _ => {}
                }
                if *gone {
                    ins[i].close();
                }
            }
            let bits: Vec<(bool, bool)> = bits.iter().map(|(g, l)| (*g, *l > 0)).collect();
            let want = bits.iter().all(|(g, ne)| *g && !*ne);
            let got = catch(|| BlockEOF::eof(&mut *block));
            rep.evaluations += 1;
            rep.transitions += 1;
            rep.distinct_nontrivial += 1;
            match got {
                Ok(g) if g == want => {}
                Ok(g) => rep.violation(
                    format!("C19/derive-eof/{}", if g { "true-too-early" } else { "never-true" }),
                    format!("{n} inputs, (gone, non-empty) per input = {bits:?} (combination {combo}: per input gone + 2 x level, level 2 = completely full): generated eof() = {g}, want {want}"),
                    json!({"engine": "derive-eof", "n": n, "combo": combo}),
                ),
                Err(p) => rep.violation(
                    "C19/derive-eof/panic".to_string(),
                    format!("{n} inputs {bits:?}: eof() panicked: {p}"),
                    json!({"engine": "derive-eof", "n": n, "combo": combo}),
                ),
            }
        }
    }
}
