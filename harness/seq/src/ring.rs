//! E1: explicit-state search of the real ring buffer (C01, C02).
//!
//! The transition function *is* the implementation: every state is reached by
//! replaying its operation history on a fresh real stream. After each
//! operation the implementation is compared with a boring reference model (a
//! VecDeque of serial numbers and tag lists).
use std::collections::{HashMap, HashSet, VecDeque};

use rustradio::stream::{ReadStream, Tag, TagValue, WriteStream, new_stream};
use rustradio::verif::{self, StreamSpec};
use serde_json::{Value, json};
use vcommon::*;

#[derive(Clone, Copy, Debug, PartialEq, Eq, Hash)]
pub enum TagPat {
    None,
    First,
    Last,
    FirstLast,
    TwoOnFirst,
    Middle,
    TwoOnLast,
    /// Three tags on every sample.
    Dense,
}

impl TagPat {
    pub const ALL: [TagPat; 7] = [
        TagPat::None,
        TagPat::First,
        TagPat::Last,
        TagPat::FirstLast,
        TagPat::TwoOnFirst,
        TagPat::Middle,
        TagPat::TwoOnLast,
    ];
    pub const SMALL: [TagPat; 4] = [TagPat::None, TagPat::First, TagPat::Last, TagPat::TwoOnFirst];
    /// Every pattern, for reading replay files.
    pub const PARSE: [TagPat; 8] = [
        TagPat::None,
        TagPat::First,
        TagPat::Last,
        TagPat::FirstLast,
        TagPat::TwoOnFirst,
        TagPat::Middle,
        TagPat::TwoOnLast,
        TagPat::Dense,
    ];

    /// Tags (window relative) for a commit of `n` samples. Order matters.
    fn tags(self, n: usize) -> Vec<Tag> {
        let a = || TagValue::U64(7);
        let b = || TagValue::String("x".into());
        let c = || TagValue::Float(1.5);
        let d = || TagValue::Bool(true);
        if n == 0 {
            return vec![];
        }
        match self {
            TagPat::None => vec![],
            TagPat::First => vec![Tag::new(0, "a", a())],
            TagPat::Last => vec![Tag::new(n - 1, "b", b())],
            // Deliberately listed last-first: order of the list given to
            // produce() is not sorted by position.
            TagPat::FirstLast => vec![Tag::new(n - 1, "b", b()), Tag::new(0, "a", a())],
            TagPat::TwoOnFirst => vec![Tag::new(0, "a", a()), Tag::new(0, "b", b())],
            TagPat::Middle => vec![Tag::new(n / 2, "c", c())],
            TagPat::TwoOnLast => vec![Tag::new(n - 1, "d", d()), Tag::new(n - 1, "a", a())],
            TagPat::Dense => (0..n)
                .flat_map(|i| [Tag::new(i, "k0", a()), Tag::new(i, "k1", b()), Tag::new(i, "k2", c())])
                .collect(),
        }
    }
}

#[derive(Clone, Copy, Debug, PartialEq, Eq, Hash)]
pub enum Op {
    /// Acquire write window, write `k` samples, commit `n` with tags.
    W { k: usize, n: usize, pat: TagPat },
    /// Acquire read window, verify it, consume `m`.
    R { m: usize },
    /// Query free space.
    F,
    /// Acquire a write window and keep holding it.
    AW,
    /// Write `k` samples into the held write window, commit `n` with tags.
    CW { k: usize, n: usize, pat: TagPat },
    /// Acquire a read window, verify it, and keep holding it.
    AR,
    /// Verify the held read window again, then consume `m` through it.
    CR { m: usize },
    /// Two write windows at once (the stream allows it when no read window
    /// is live): commit `n1` good samples through the first, then `n2`
    /// through the second, where `n2` fits the second window but not the
    /// space that is left. Must be refused.
    WW { n1: usize, n2: usize },
    /// Two read windows at once: consume `m1` through the first, then `m2`
    /// through the second, where `m2` fits the second window but exceeds
    /// what is left. Must be refused.
    RR { m1: usize, m2: usize },
}

impl Op {
    fn to_json(self) -> Value {
        match self {
            Op::W { k, n, pat } => json!({"op":"W","write":k,"commit":n,"tags":format!("{pat:?}")}),
            Op::R { m } => json!({"op":"R","consume":m}),
            Op::F => json!({"op":"F"}),
            Op::AW => json!({"op":"AW"}),
            Op::CW { k, n, pat } => json!({"op":"CW","write":k,"commit":n,"tags":format!("{pat:?}")}),
            Op::AR => json!({"op":"AR"}),
            Op::CR { m } => json!({"op":"CR","consume":m}),
            Op::WW { n1, n2 } => json!({"op":"WW","first":n1,"second":n2}),
            Op::RR { m1, m2 } => json!({"op":"RR","first":m1,"second":m2}),
        }
    }
    pub fn from_json(v: &Value) -> Op {
        match v["op"].as_str().unwrap() {
            "W" => Op::W {
                k: v["write"].as_u64().unwrap() as usize,
                n: v["commit"].as_u64().unwrap() as usize,
                pat: *TagPat::PARSE
                    .iter()
                    .find(|p| format!("{p:?}") == v["tags"].as_str().unwrap())
                    .unwrap(),
            },
            "R" => Op::R {
                m: v["consume"].as_u64().unwrap() as usize,
            },
            "CW" => Op::CW {
                k: v["write"].as_u64().unwrap() as usize,
                n: v["commit"].as_u64().unwrap() as usize,
                pat: *TagPat::PARSE
                    .iter()
                    .find(|p| format!("{p:?}") == v["tags"].as_str().unwrap())
                    .unwrap(),
            },
            "CR" => Op::CR {
                m: v["consume"].as_u64().unwrap() as usize,
            },
            "AW" => Op::AW,
            "AR" => Op::AR,
            "RR" => Op::RR {
                m1: v["first"].as_u64().unwrap() as usize,
                m2: v["second"].as_u64().unwrap() as usize,
            },
            "WW" => Op::WW {
                n1: v["first"].as_u64().unwrap() as usize,
                n2: v["second"].as_u64().unwrap() as usize,
            },
            _ => Op::F,
        }
    }
}

type MTag = (String, String); // key, Debug of value

/// Reference model.
#[derive(Clone, Debug)]
struct Model {
    cap: usize,
    q: VecDeque<(u64, Vec<MTag>)>,
    next: u64,
}

/// Canonical state key. Serial numbers are deliberately not part of it: two
/// states that differ only in which serials are buffered have isomorphic
/// futures (stale memory always holds *older* serials or poison, which are
/// never an expected value).
#[derive(Clone, Debug, PartialEq, Eq, Hash)]
struct Key {
    rpos: usize,
    wpos: usize,
    used: usize,
    impl_tags: Vec<(usize, Vec<MTag>)>,
    model_tags: Vec<Vec<MTag>>,
    refused: bool,
    /// Length of the held write / read window, if any.
    held_w: Option<usize>,
    held_r: Option<usize>,
}

struct Sys<T: Elem> {
    w: WriteStream<T>,
    r: ReadStream<T>,
    m: Model,
    base: Option<usize>,
    refused: bool,
    held_w: Option<rustradio::circular_buffer::BufferWriter<T>>,
    /// Held read window, its tags, and the serial of its first sample.
    held_r: Option<(rustradio::circular_buffer::BufferReader<T>, Vec<(usize, MTag)>, u64)>,
}

fn mtag(t: &Tag) -> MTag {
    (t.key().to_string(), format!("{:?}", t.val()))
}

#[derive(Debug)]
pub struct Fail {
    pub clause: &'static str,
    pub msg: String,
}

fn fail<X>(clause: &'static str, msg: String) -> Result<X, Fail> {
    Err(Fail { clause, msg })
}

impl<T: Elem> Sys<T> {
    fn new(size: usize) -> Result<Self, Fail> {
        verif::clear_stream_specs();
        verif::push_stream_spec(StreamSpec::plain(size));
        let (w, r) = match catch(new_stream::<T>) {
            Ok(x) => x,
            Err(e) => return fail("setup", format!("new_stream panicked: {e}")),
        };
        let cap = size / std::mem::size_of::<T>();
        Ok(Self {
            w,
            r,
            m: Model {
                cap,
                q: VecDeque::new(),
                next: 1,
            },
            base: None,
            refused: false,
            held_w: None,
            held_r: None,
        })
    }

    fn key(&self) -> Key {
        let d = self.r.verif_dump();
        Key {
            rpos: d.rpos,
            wpos: d.wpos,
            used: d.used,
            impl_tags: d
                .tags
                .iter()
                .map(|(p, ts)| (*p, ts.iter().map(mtag).collect()))
                .collect(),
            model_tags: self.m.q.iter().map(|(_, t)| t.clone()).collect(),
            refused: self.refused,
            held_w: self.held_w.as_ref().map(|w| w.len()),
            held_r: self.held_r.as_ref().map(|r| r.0.len()),
        }
    }

    /// Invariants checked after every operation.
    fn check_state(&mut self) -> Result<(), Fail> {
        let cap = self.m.cap;
        let used = self.m.q.len();
        if self.held_w.is_some() || self.held_r.is_some() {
            // Windows are held: a stream allows only so many at once. Check
            // the bookkeeping; contents are checked when the held window is
            // used, and in full once nothing is held.
            if self.w.free() != cap - used {
                return fail("free", format!("free() = {}, model {}", self.w.free(), cap - used));
            }
            let ov = verif::take_overlaps();
            if !ov.is_empty() {
                return fail("window-overlap", format!("read window {:?} and write window {:?} of one stream (capacity {}) are live at once and overlap", (ov[0].read.start, ov[0].read.end), (ov[0].write.start, ov[0].write.end), ov[0].capacity));
            }
            return Ok(());
        }
        // Both windows live at once: one reader, one writer is the contract.
        let (rb, rtags) = match self.r.read_buf() {
            Ok(x) => x,
            Err(e) => return fail("window", format!("read_buf failed: {e}")),
        };
        let mut wb = match self.w.write_buf() {
            Ok(x) => x,
            Err(e) => return fail("window", format!("write_buf failed: {e}")),
        };
        if rb.len() != used {
            return fail(
                "read-len",
                format!("read window has {} samples, model has {}", rb.len(), used),
            );
        }
        if rb.len() + wb.len() != cap || self.r.total_size() != cap {
            return fail(
                "capacity-sum",
                format!(
                    "readable {} + writable {} != capacity {} (total_size {})",
                    rb.len(),
                    wb.len(),
                    cap,
                    self.r.total_size()
                ),
            );
        }
        if self.w.free() != cap - used {
            return fail(
                "free",
                format!("free() = {}, model {}", self.w.free(), cap - used),
            );
        }
        // Content.
        for (i, (got, (serial, _))) in rb.slice().iter().zip(self.m.q.iter()).enumerate() {
            let want = T::from_serial(*serial % T::modulus());
            if *got != want {
                return fail(
                    "content",
                    format!("read window sample {i}: got {got:?}, want {want:?}"),
                );
            }
        }
        // Tags.
        let mut want_tags: Vec<(usize, MTag)> = Vec::new();
        for (i, (_, ts)) in self.m.q.iter().enumerate() {
            for t in ts {
                want_tags.push((i, t.clone()));
            }
        }
        let got_tags: Vec<(usize, MTag)> = rtags.iter().map(|t| (t.pos(), mtag(t))).collect();
        if got_tags != want_tags {
            return fail(
                "tags",
                format!("read window tags: got {got_tags:?}, want {want_tags:?}"),
            );
        }
        // Nothing below looks at cursor values or window addresses: a ring that
        // numbers its positions differently is just as correct. The internal
        // state is only used as part of the search's state key.
        let d = self.r.verif_dump();
        let _ = (&mut wb, &mut self.base);
        // Hidden invariant with a visible consequence: a tag left in the map
        // for a position that is not buffered is shown to the reader as soon as
        // that position is written again.
        // (Only meaningful for a tag map keyed by ring position; with any
        // other representation this clause stays silent and a stale tag is
        // caught when it surfaces in a successor state.)
        let positional = d.rpos < cap && d.used <= cap && d.tags.iter().all(|(p, _)| *p < cap);
        for (pos, ts) in &d.tags {
            if !positional {
                break;
            }
            let rel = (*pos + cap - d.rpos) % cap;
            if rel >= d.used && !ts.is_empty() {
                return fail(
                    "stale-tag",
                    format!(
                        "tag map keeps {ts:?} at position {pos}, outside the readable range (rpos {} used {})",
                        d.rpos, d.used
                    ),
                );
            }
        }
        drop(rb);
        drop(wb);
        let ov = verif::take_overlaps();
        if !ov.is_empty() {
            return fail("window-overlap", format!("read window {:?} and write window {:?} of one stream (capacity {}) are live at once and overlap", (ov[0].read.start, ov[0].read.end), (ov[0].write.start, ov[0].write.end), ov[0].capacity));
        }
        Ok(())
    }

    fn apply(&mut self, op: Op) -> Result<(), Fail> {
        let cap = self.m.cap;
        match op {
            Op::F => {
                let f = self.w.free();
                if f != cap - self.m.q.len() {
                    return fail("free", format!("free() = {f}, model {}", cap - self.m.q.len()));
                }
            }
            Op::RR { m1, m2 } => {
                let have = self.m.q.len();
                let (r1, _) = match self.r.read_buf() {
                    Ok(x) => x,
                    Err(e) => return fail("window", format!("read_buf failed: {e}")),
                };
                let r2 = match catch(|| self.r.read_buf()) {
                    Ok(Ok((x, _))) => x,
                    _ => {
                        drop(r1);
                        self.refused = true;
                        return Ok(());
                    }
                };
                assert!(m1 >= 1 && m1 <= have && m2 <= r2.len());
                if let Err(e) = catch(move || r1.consume(m1)) {
                    return fail("consume-panic", format!("consume of {m1} (have {have}) panicked: {e}"));
                }
                for _ in 0..m1 {
                    self.m.q.pop_front();
                }
                let left = have - m1;
                if m2 <= left {
                    // Fits: a consume is relative to where the stream is now,
                    // whichever window it goes through.
                    if let Err(e) = catch(move || r2.consume(m2)) {
                        return fail("consume-panic", format!("consume of {m2} through a second read window (have {left}) panicked: {e}"));
                    }
                    for _ in 0..m2 {
                        self.m.q.pop_front();
                    }
                    return self.check_state();
                }
                let r = catch(move || r2.consume(m2));
                if r.is_ok() {
                    return fail(
                        "over-consume-accepted",
                        format!("consume of {m2} through a second read window accepted with {left} buffered"),
                    );
                }
                self.refused = true;
                return Ok(());
            }
            Op::WW { n1, n2 } => {
                let room = cap - self.m.q.len();
                let mut w1 = match self.w.write_buf() {
                    Ok(x) => x,
                    Err(e) => return fail("window", format!("write_buf failed: {e}")),
                };
                // A stream may refuse a second write window: nothing to check then.
                let w2 = match catch(|| self.w.write_buf()) {
                    Ok(Ok(x)) => x,
                    _ => {
                        drop(w1);
                        self.refused = true;
                        return Ok(());
                    }
                };
                assert!(n1 >= 1 && n1 <= room && n2 <= w2.len());
                let mut w2 = w2;
                if n1 + n2 <= room {
                    // Fits. The second window was taken at the old write
                    // position: what it commits lands after the first commit,
                    // which is where these samples are written through it.
                    for i in 0..n2 {
                        w2.slice()[n1 + i] = T::from_serial((self.m.next + (n1 + i) as u64) % T::modulus());
                    }
                }
                for i in 0..n1 {
                    w1.slice()[i] = T::from_serial((self.m.next + i as u64) % T::modulus());
                }
                if let Err(e) = catch(move || w1.produce(n1, &[])) {
                    return fail("commit-panic", format!("commit of {n1} (room {room}) panicked: {e}"));
                }
                for i in 0..n1 {
                    self.m.q.push_back((self.m.next + i as u64, vec![]));
                }
                self.m.next += n1 as u64;
                let left = room - n1;
                if n2 <= left {
                    if let Err(e) = catch(move || w2.produce(n2, &[])) {
                        return fail("commit-panic", format!("commit of {n2} through a second write window (room {left}) panicked: {e}"));
                    }
                    for i in 0..n2 {
                        self.m.q.push_back((self.m.next + i as u64, vec![]));
                    }
                    self.m.next += n2 as u64;
                    return self.check_state();
                }
                let r = catch(move || w2.produce(n2, &[]));
                if r.is_ok() {
                    return fail(
                        "over-commit-accepted",
                        format!("commit of {n2} through a second write window accepted with {left} free"),
                    );
                }
                self.refused = true;
                return Ok(());
            }
            Op::AW => {
                let wb = match self.w.write_buf() {
                    Ok(x) => x,
                    Err(e) => return fail("window", format!("write_buf failed: {e}")),
                };
                let room = cap - self.m.q.len();
                if wb.len() != room {
                    return fail(
                        "write-len",
                        format!("write window has {} slots, model has {room}", wb.len()),
                    );
                }
                self.held_w = Some(wb);
            }
            Op::AR => {
                let (rb, tags) = match self.r.read_buf() {
                    Ok(x) => x,
                    Err(e) => return fail("window", format!("read_buf failed: {e}")),
                };
                if rb.len() != self.m.q.len() {
                    return fail(
                        "read-len",
                        format!("read window has {} samples, model has {}", rb.len(), self.m.q.len()),
                    );
                }
                let first = self.m.q.front().map(|x| x.0).unwrap_or(self.m.next);
                let t: Vec<(usize, MTag)> = tags.iter().map(|t| (t.pos(), mtag(t))).collect();
                self.held_r = Some((rb, t, first));
            }
            Op::CR { m } => {
                let (rb, tags, first) = self.held_r.take().expect("CR without held window");
                // The window is a snapshot: what it showed when acquired is
                // what it must still show, whatever was committed since.
                for (i, got) in rb.slice().iter().enumerate() {
                    let want = T::from_serial((first + i as u64) % T::modulus());
                    if *got != want {
                        return fail(
                            "content",
                            format!("held read window sample {i}: got {got:?}, want {want:?}"),
                        );
                    }
                }
                let mut want_tags: Vec<(usize, MTag)> = Vec::new();
                for (i, (_, ts)) in self.m.q.iter().enumerate().take(rb.len()) {
                    for t in ts {
                        want_tags.push((i, t.clone()));
                    }
                }
                if tags != want_tags {
                    return fail("tags", format!("held read window tags: got {tags:?}, want {want_tags:?}"));
                }
                let have = self.m.q.len();
                if m > have {
                    let r = catch(move || rb.consume(m));
                    if r.is_ok() {
                        return fail(
                            "over-consume-accepted",
                            format!("consume of {m} accepted with {have} buffered"),
                        );
                    }
                    self.refused = true;
                    return Ok(());
                }
                if let Err(e) = catch(move || rb.consume(m)) {
                    return fail("consume-panic", format!("consume of {m} (have {have}) panicked: {e}"));
                }
                for _ in 0..m {
                    self.m.q.pop_front();
                }
            }
            Op::W { k, n, pat } | Op::CW { k, n, pat } => {
                let held = matches!(op, Op::CW { .. });
                let mut wb = if held {
                    self.held_w.take().expect("CW without held window")
                } else {
                    match self.w.write_buf() {
                        Ok(x) => x,
                        Err(e) => return fail("window", format!("write_buf failed: {e}")),
                    }
                };
                let room = cap - self.m.q.len();
                if !held && wb.len() != room {
                    return fail(
                        "write-len",
                        format!("write window has {} slots, model has {room}", wb.len()),
                    );
                }
                let k = k.min(wb.len());
                let good = n.min(k);
                for i in 0..k {
                    wb.slice()[i] = if i < good {
                        T::from_serial((self.m.next + i as u64) % T::modulus())
                    } else {
                        T::poison()
                    };
                }
                let tags = pat.tags(n);
                if n > room {
                    // Must be refused.
                    let r = catch(move || wb.produce(n, &tags));
                    if r.is_ok() {
                        return fail(
                            "over-commit-accepted",
                            format!("commit of {n} accepted with {room} free"),
                        );
                    }
                    self.refused = true;
                    return Ok(());
                }
                if let Err(e) = catch(move || wb.produce(n, &tags)) {
                    return fail("commit-panic", format!("commit of {n} (room {room}) panicked: {e}"));
                }
                let mtags = pat.tags(n);
                for i in 0..n {
                    let ts: Vec<MTag> = mtags.iter().filter(|t| t.pos() == i).map(mtag).collect();
                    self.m.q.push_back((self.m.next + i as u64, ts));
                }
                self.m.next += n as u64;
            }
            Op::R { m } => {
                let (rb, _tags) = match self.r.read_buf() {
                    Ok(x) => x,
                    Err(e) => return fail("window", format!("read_buf failed: {e}")),
                };
                let have = self.m.q.len();
                if rb.len() != have {
                    return fail(
                        "read-len",
                        format!("read window has {} samples, model has {have}", rb.len()),
                    );
                }
                if m > have {
                    let r = catch(move || rb.consume(m));
                    if r.is_ok() {
                        return fail(
                            "over-consume-accepted",
                            format!("consume of {m} accepted with {have} buffered"),
                        );
                    }
                    self.refused = true;
                    return Ok(());
                }
                if let Err(e) = catch(move || rb.consume(m)) {
                    return fail("consume-panic", format!("consume of {m} (have {have}) panicked: {e}"));
                }
                for _ in 0..m {
                    self.m.q.pop_front();
                }
            }
        }
        if !self.refused {
            self.check_state()?;
        }
        Ok(())
    }
}

impl<T: Elem> Drop for Sys<T> {
    fn drop(&mut self) {
        // Windows before streams, and never panic here.
        self.held_w = None;
        self.held_r = None;
    }
}

/// Replay a history on a fresh stream. Ok(key) or the failing step.
fn replay<T: Elem>(size: usize, hist: &[Op]) -> Result<Key, (usize, Fail)> {
    verif::take_overlaps();
    let mut sys = Sys::<T>::new(size).map_err(|f| (0, f))?;
    sys.check_state().map_err(|f| (0, f))?;
    for (i, op) in hist.iter().enumerate() {
        if sys.refused {
            break;
        }
        let r = catch(|| sys.apply(*op));
        match r {
            Ok(Ok(())) => {}
            Ok(Err(f)) => return Err((i, f)),
            Err(p) => {
                return Err((
                    i,
                    Fail {
                        clause: "panic",
                        msg: format!("unexpected panic: {p}"),
                    },
                ));
            }
        }
    }
    Ok(sys.key())
}

fn amounts(limit: usize, wrap_dist: usize, cap: usize) -> Vec<usize> {
    let mut v = vec![0, 1, 2, limit.saturating_sub(1), limit, limit + 1];
    for d in [wrap_dist.saturating_sub(1), wrap_dist, wrap_dist + 1] {
        if d <= limit {
            v.push(d);
        }
    }
    if cap > 2 {
        v.push(cap - 1);
    }
    v.retain(|x| *x <= limit + 1);
    v.sort();
    v.dedup();
    v
}

fn successors(key: &Key, cap: usize, pats: &[TagPat]) -> Vec<Op> {
    let mut ops = Vec::new();
    // (Internal cursors are only used to pick amounts near the wrap point: an
    // implementation that lets them run past the capacity is not wrong by that alone.)
    let free = cap.saturating_sub(key.used);
    // Producer side. With a held window only that window can be committed
    // (single producer), and only up to its own length.
    let wlimit = key.held_w.unwrap_or(free);
    for n in amounts(wlimit, cap - key.wpos % cap, cap) {
        if n > wlimit && (key.held_w.is_some() && free > wlimit) {
            // More than the held window but within space freed since: outside
            // the alphabet (caller contract).
            continue;
        }
        let mut ks = vec![n.min(wlimit)];
        if n < wlimit {
            ks.push(n + 1);
        }
        for k in ks {
            let mk = |k, n, pat| if key.held_w.is_some() { Op::CW { k, n, pat } } else { Op::W { k, n, pat } };
            if n == 0 || n > wlimit {
                ops.push(mk(k, n, TagPat::None));
            } else {
                for p in pats {
                    // Skip patterns that coincide for n == 1.
                    if n == 1 && matches!(p, TagPat::Middle | TagPat::FirstLast) {
                        continue;
                    }
                    ops.push(mk(k, n, *p));
                }
            }
        }
    }
    if key.held_w.is_none() {
        ops.push(Op::AW);
    }
    if key.held_w.is_none() && key.held_r.is_none() && free >= 1 {
        let mut seen = vec![];
        for n1 in [1, free] {
            for n2 in [free - n1 + 1, free, 1, free - n1] {
                if n2 == 0 {
                    continue;
                }
                if !seen.contains(&(n1, n2)) {
                    seen.push((n1, n2));
                    ops.push(Op::WW { n1, n2 });
                }
            }
        }
    }
    // Consumer side.
    let rlimit = key.held_r.unwrap_or(key.used);
    for m in amounts(rlimit, cap - key.rpos % cap, cap) {
        if m > rlimit && key.held_r.is_some() && key.used > rlimit {
            continue;
        }
        ops.push(if key.held_r.is_some() { Op::CR { m } } else { Op::R { m } });
    }
    if key.held_r.is_none() {
        ops.push(Op::AR);
    }
    if key.held_w.is_none() && key.held_r.is_none() && key.used >= 1 {
        let mut seen = vec![];
        for m1 in [1, key.used] {
            for m2 in [key.used - m1 + 1, key.used, 1, key.used - m1] {
                if m2 == 0 {
                    continue;
                }
                if !seen.contains(&(m1, m2)) {
                    seen.push((m1, m2));
                    ops.push(Op::RR { m1, m2 });
                }
            }
        }
    }
    ops.push(Op::F);
    ops
}

pub struct RingCfg {
    pub prop: &'static str,
    pub size: usize,
    pub pats: Vec<TagPat>,
    pub max_states: usize,
}

fn report_fail<T: Elem>(rep: &mut Report, cfg: &RingCfg, hist: &[Op], step: usize, f: &Fail) {
    // Attribute tag clauses to C02, everything else to C01.
    let prop = match f.clause {
        "tags" | "stale-tag" => "C02",
        _ => "C01",
    };
    let cap = cfg.size / std::mem::size_of::<T>();
    let sig = format!("{prop}/ring/{}/{}", f.clause, shape(hist, step, cap));
    rep.violation(
        sig,
        format!(
            "{} cap {cap} ({} bytes): step {step} of {:?}: {}",
            T::name(),
            cfg.size,
            hist,
            f.msg
        ),
        json!({
            "engine": "ring",
            "elem": T::name(),
            "size": cfg.size,
            "history": hist.iter().map(|o| o.to_json()).collect::<Vec<_>>(),
            "failing_step": step,
            "clause": f.clause,
        }),
    );
}

/// Coarse witness shape, so that known-finding entries name a specific kind of
/// history rather than a whole property.
fn shape(hist: &[Op], step: usize, _cap: usize) -> String {
    match hist.get(step) {
        Some(Op::W { n, .. }) => format!("commit{}", if *n == 0 { "0" } else { "N" }),
        Some(Op::R { m }) => format!("consume{}", if *m == 0 { "0" } else { "N" }),
        Some(Op::F) => "free".into(),
        Some(Op::AW) => "acquire-write".into(),
        Some(Op::AR) => "acquire-read".into(),
        Some(Op::CW { n, .. }) => format!("held-commit{}", if *n == 0 { "0" } else { "N" }),
        Some(Op::CR { m }) => format!("held-consume{}", if *m == 0 { "0" } else { "N" }),
        Some(Op::WW { .. }) => "two-write-windows".into(),
        Some(Op::RR { .. }) => "two-read-windows".into(),
        None => "init".into(),
    }
}

/// Breadth-first search to closure.
pub fn closure<T: Elem>(rep: &mut Report, cfg: &RingCfg) {
    let cap = cfg.size / std::mem::size_of::<T>();
    let mut seen: HashSet<Key> = HashSet::new();
    let mut frontier: VecDeque<Vec<Op>> = VecDeque::new();
    let mut transitions = 0u64;
    let mut refusals = 0u64;
    let mut maxdepth = 0usize;
    let mut wraps = 0u64;
    match replay::<T>(cfg.size, &[]) {
        Ok(k) => {
            seen.insert(k);
            frontier.push_back(vec![]);
        }
        Err((step, f)) => {
            report_fail::<T>(rep, cfg, &[], step, &f);
            return;
        }
    }
    let mut failed_sigs = 0usize;
    while let Some(hist) = frontier.pop_front() {
        let key = replay::<T>(cfg.size, &hist).expect("replay of a visited state failed");
        maxdepth = maxdepth.max(hist.len());
        for op in successors(&key, cap, &cfg.pats) {
            let mut h = hist.clone();
            h.push(op);
            transitions += 1;
            match replay::<T>(cfg.size, &h) {
                Ok(k) => {
                    if k.refused {
                        refusals += 1;
                        continue; // terminal
                    }
                    if k.wpos < key.wpos || k.rpos < key.rpos {
                        wraps += 1;
                    }
                    if !seen.contains(&k) {
                        if seen.len() >= cfg.max_states {
                            rep.cap(format!(
                                "{} cap {cap}: state cap {} reached",
                                T::name(),
                                cfg.max_states
                            ));
                            frontier.clear();
                            break;
                        }
                        seen.insert(k);
                        if rep.samples.len() < 3 && h.len() >= 3 {
                            rep.sample(json!({"elem": T::name(), "capacity": cap,
                                "history": h.iter().map(|o| o.to_json()).collect::<Vec<_>>()}));
                        }
                        frontier.push_back(h);
                    }
                }
                Err((step, f)) => {
                    report_fail::<T>(rep, cfg, &h, step, &f);
                    failed_sigs += 1;
                    // Do not expand states beyond a failure.
                }
            }
        }
        if failed_sigs > 2000 {
            break;
        }
    }
    rep.states += seen.len() as u64;
    rep.transitions += transitions;
    rep.evaluations += transitions + 1;
    rep.distinct_nontrivial += seen.len() as u64;
    rep.traces_validated += transitions + 1;
    rep.add("refusals_checked", refusals);
    rep.add("wrapping_transitions", wraps);
    let cfgs = rep.extra.entry("configs").or_insert(json!([]));
    cfgs.as_array_mut().unwrap().push(json!({
        "elem": T::name(), "bytes": cfg.size, "capacity": cap, "mode": "closure",
        "states": seen.len(), "transitions": transitions, "max_depth": maxdepth,
        "tag_patterns": cfg.pats.len(),
    }));
}

/// Bounded-depth search from given start states (ring offset p, prefill u),
/// reached through real operations.
pub fn sweep<T: Elem>(
    rep: &mut Report,
    cfg: &RingCfg,
    offsets: &[usize],
    prefills: &[usize],
    depth: usize,
) {
    let cap = cfg.size / std::mem::size_of::<T>();
    let mut seqs = 0u64;
    let mut states: HashSet<(usize, usize)> = HashSet::new();
    let mut memo: HashMap<Vec<Op>, Key> = HashMap::new();
    for &p in offsets {
        for &u in prefills {
            if p >= cap || u > cap {
                continue;
            }
            let mut prefix = Vec::new();
            if p > 0 {
                prefix.push(Op::W { k: p, n: p, pat: TagPat::None });
                prefix.push(Op::R { m: p });
            }
            if u > 0 {
                prefix.push(Op::W { k: u, n: u, pat: cfg.pats[cfg.pats.len() - 1] });
            }
            memo.clear();
            let k0 = match replay::<T>(cfg.size, &prefix) {
                Ok(k) => k,
                Err((step, f)) => {
                    report_fail::<T>(rep, cfg, &prefix, step, &f);
                    continue;
                }
            };
            // DFS over op sequences.
            let mut stack: Vec<(Vec<Op>, Key)> = vec![(prefix.clone(), k0)];
            while let Some((h, key)) = stack.pop() {
                states.insert((key.rpos, key.used));
                if h.len() - prefix.len() >= depth || key.refused {
                    continue;
                }
                for op in successors(&key, cap, &cfg.pats) {
                    if op == Op::F && h.len() - prefix.len() > 0 {
                        continue;
                    }
                    let mut h2 = h.clone();
                    h2.push(op);
                    seqs += 1;
                    match replay::<T>(cfg.size, &h2) {
                        Ok(k) => stack.push((h2, k)),
                        Err((step, f)) => report_fail::<T>(rep, cfg, &h2, step, &f),
                    }
                }
            }
            if rep.samples.len() < 5 {
                rep.sample(json!({"elem": T::name(), "capacity": cap, "start_offset": p, "prefill": u,
                    "mode": "sweep", "depth": depth}));
            }
        }
    }
    rep.transitions += seqs;
    rep.evaluations += seqs;
    rep.traces_validated += seqs;
    rep.states += states.len() as u64;
    rep.distinct_nontrivial += states.len() as u64;
    let cfgs = rep.extra.entry("configs").or_insert(json!([]));
    cfgs.as_array_mut().unwrap().push(json!({
        "elem": T::name(), "bytes": cfg.size, "capacity": cap, "mode": "sweep",
        "offsets": offsets.len(), "prefills": prefills, "depth": depth,
        "sequences": seqs, "distinct_(rpos,used)": states.len(),
    }));
}

/// Element sizes that do not divide the buffer: must be refused at
/// construction, or else behave correctly.
pub fn nondividing<T: Elem>(rep: &mut Report, cfg: &RingCfg) {
    let sz = std::mem::size_of::<T>();
    assert!(cfg.size % sz != 0);
    rep.evaluations += 1;
    let r = catch(|| rustradio::circular_buffer::Buffer::<T>::new(cfg.size));
    match r {
        Ok(Err(_)) => {
            rep.add("nondividing_refused", 1);
        }
        Err(p) => {
            rep.violation(
                format!("C01/ring/nondividing-panic/{}", T::name()),
                format!("Buffer::<{}>::new({}) panicked: {p}", T::name(), cfg.size),
                json!({"engine":"ring","elem":T::name(),"size":cfg.size,"mode":"nondividing"}),
            );
        }
        Ok(Ok(_)) => {
            // Accepted: then it has to work, including across the wrap.
            let cap = cfg.size / sz;
            let mut offs: Vec<usize> = vec![0, 1, cap / 2, cap.saturating_sub(2), cap.saturating_sub(1)];
            offs.retain(|o| *o < cap.max(1));
            offs.sort();
            offs.dedup();
            let before = rep.violations.len();
            let mut tmp = Report::new(cfg.prop, "ring");
            let mut pre = vec![0, 1, cap.saturating_sub(1), cap];
            pre.sort();
            pre.dedup();
            sweep::<T>(&mut tmp, cfg, &offs, &pre, 2);
            rep.evaluations += tmp.evaluations;
            rep.transitions += tmp.transitions;
            rep.traces_validated += tmp.traces_validated;
            rep.states += tmp.states;
            rep.distinct_nontrivial += tmp.distinct_nontrivial;
            let _ = before;
            // Re-label: the root cause is the accepted construction. Keep the
            // first (shortest) witness.
            if let Some(v) = tmp.violations.first() {
                rep.violation(
                    format!("C01/ring/nondividing-accepted/{}/{}", T::name(), cfg.size),
                    format!(
                        "Buffer::<{}>::new({}) accepted (element size {} does not divide it) and then: {}",
                        T::name(),
                        cfg.size,
                        sz,
                        v.message
                    ),
                    v.replay.clone(),
                );
            }
        }
    }
}

/// Replay one history from a replay file.
pub fn replay_json(v: &Value) -> Result<(), String> {
    let size = v["size"].as_u64().unwrap() as usize;
    let hist: Vec<Op> = v["history"]
        .as_array()
        .map(|a| a.iter().map(Op::from_json).collect())
        .unwrap_or_default();
    macro_rules! go {
        ($t:ty) => {
            match replay::<$t>(size, &hist) {
                Ok(_) => Ok(()),
                Err((step, f)) => Err(format!("step {step}: [{}] {}", f.clause, f.msg)),
            }
        };
    }
    match v["elem"].as_str().unwrap() {
        "Big4096" => go!(Big4096),
        "Big2048" => go!(Big2048),
        "Big1024" => go!(Big1024),
        "u8" => go!(u8),
        "u16" => go!(u16),
        "u32" => go!(u32),
        "u64" => go!(u64),
        "u128" => go!(u128),
        "f32" => go!(f32),
        "Complex" => go!(rustradio::Complex),
        "[u8;3]" => go!([u8; 3]),
        "[u8;12]" => go!([u8; 12]),
        "[u8;24]" => go!([u8; 24]),
        "[u8;8192]" => go!([u8; 8192]),
        x => Err(format!("unknown elem {x}")),
    }
}

pub fn run(prop: &'static str, tier: &str, shard: Option<&str>) -> Report {
    let mut rep = Report::new(prop, "ring");
    let thorough = tier == "thorough";
    let tagged = prop == "C02";
    rep.rule = "states of (real ring buffer, reference queue) reached by replaying operation histories \
        (write k / commit n with tags / read+verify / consume m / free) on a fresh stream; a state is distinct by \
        (rpos, wpos, used, tag map, model tag layout); all are non-trivial except the initial one; \
        closure = breadth-first until no new state; sweep = all sequences up to a depth from given ring offsets"
        .into();
    rep.assumptions = vec![
        "single producer and single consumer (one live write window at a time)".into(),
        "commits larger than the acquired window but within later-freed space are outside the alphabet".into(),
        "native small types carry serial numbers modulo a prime (u8: 251), so a shift by an exact multiple would go unseen".into(),
    ];
    let pats: Vec<TagPat> = if tagged { TagPat::ALL.to_vec() } else { vec![TagPat::None] };
    let small: Vec<TagPat> = if tagged { TagPat::SMALL.to_vec() } else { vec![TagPat::None] };
    let mk = |size: usize, pats: &Vec<TagPat>| RingCfg {
        prop,
        size,
        pats: pats.clone(),
        max_states: 3_000_000,
    };
    let want = |name: &str| shard.map(|s| s == name).unwrap_or(true);
    // Closure runs on fat samples.
    if want("closure-small") {
        closure::<Big4096>(&mut rep, &mk(PAGE, &pats)); // cap 1
        closure::<Big2048>(&mut rep, &mk(PAGE, &pats)); // cap 2
        closure::<Big4096>(&mut rep, &mk(2 * PAGE, &pats)); // cap 2, two pages
        closure::<Big4096>(&mut rep, &mk(3 * PAGE, &pats)); // cap 3
    }
    if want("closure-4") {
        closure::<Big1024>(&mut rep, &mk(PAGE, &pats)); // cap 4
    }
    if want("closure-6") && (!tagged || thorough) {
        closure::<Big2048>(&mut rep, &mk(3 * PAGE, &small)); // cap 6
    }
    if want("closure-12") && !tagged {
        closure::<Big1024>(&mut rep, &mk(3 * PAGE, &small)); // cap 12
    }
    // Sweeps on native element types. Shard names: "native-<type>x<pages>",
    // optionally with "@k/n": the offsets congruent to k modulo n (thorough
    // sweeps start from every ring offset).
    let (nat_name, nat_slice): (Option<&str>, (usize, usize)) = match shard {
        Some(s) if s.starts_with("native-") => {
            let (name, sl) = match s.split_once('@') {
                Some((a, b)) => {
                    let (k, n) = b.split_once('/').unwrap();
                    (a, (k.parse().unwrap(), n.parse().unwrap()))
                }
                None => (s, (0, 1)),
            };
            (Some(name), sl)
        }
        _ => (None, (0, 1)),
    };
    macro_rules! native {
        ($t:ty, $pages:expr, $name:expr, $quick:expr) => {{
            let on = match (shard, nat_name) {
                (None, _) => $quick || thorough,
                (Some(_), Some(n)) => n == $name && ($quick || thorough),
                _ => false,
            };
            if on {
                let size = $pages * PAGE;
                let cap = size / std::mem::size_of::<$t>();
                let mut offs: Vec<usize> = vec![0, 1, 2, cap / 2 - 1, cap / 2, cap - 3, cap - 2, cap - 1];
                if thorough {
                    // Every offset; with tags (several times the cost per
                    // history) at most 512 evenly spaced ones plus the edges.
                    let stride = if tagged { (cap / 512).max(1) } else { 1 };
                    offs = (0..cap)
                        .filter(|o| o % stride == 0 || *o + 3 >= cap || *o < 3)
                        .filter(|o| (o / stride) % nat_slice.1 == nat_slice.0)
                        .collect();
                }
                let depth = if thorough { 2 } else { 3 };
                let cfg = mk(size, &small);
                sweep::<$t>(&mut rep, &cfg, &offs, &[0, 1, cap - 1, cap], if tagged { depth.min(2) } else { depth });
                if thorough && nat_slice.0 == 0 && !tagged {
                    let b: Vec<usize> = vec![0, 1, 2, cap / 2 - 1, cap / 2, cap - 3, cap - 2, cap - 1];
                    sweep::<$t>(&mut rep, &cfg, &b, &[0, 1, 2, cap - 2, cap - 1, cap], 3);
                }
            }
        }};
    }
    native!(u8, 1, "native-u8x1", true);
    native!(u16, 1, "native-u16x1", true);
    native!(f32, 1, "native-f32x1", true);
    native!(u32, 2, "native-u32x2", true);
    native!(rustradio::Complex, 1, "native-complexx1", true);
    native!(u64, 2, "native-u64x2", true);
    native!(u128, 1, "native-u128x1", true);
    native!(u8, 2, "native-u8x2", false);
    native!(u128, 3, "native-u128x3", false);
    // Many tags in one window (three per sample), around the wrap point.
    if want("dense") && tagged {
        let dense = vec![TagPat::None, TagPat::Dense];
        let cap = PAGE;
        let offs: Vec<usize> = vec![0, cap - 40, cap - 20, cap - 6, cap - 1];
        sweep::<u8>(&mut rep, &mk(PAGE, &dense), &offs, &[0, 1, 40], 2);
        let cap = PAGE / 8;
        let offs: Vec<usize> = vec![0, cap - 40, cap - 13, cap - 1];
        sweep::<u64>(&mut rep, &mk(PAGE, &dense), &offs, &[0, 40], 2);
    }
    if want("nondividing") && !tagged {
        nondividing::<[u8; 3]>(&mut rep, &mk(PAGE, &small));
        nondividing::<[u8; 12]>(&mut rep, &mk(PAGE, &small));
        nondividing::<[u8; 24]>(&mut rep, &mk(PAGE, &small));
        nondividing::<[u8; 3]>(&mut rep, &mk(2 * PAGE, &small));
        nondividing::<[u8; 24]>(&mut rep, &mk(2 * PAGE, &small));
        // Divides the doubled mapping but not the buffer.
        nondividing::<[u8; 8192]>(&mut rep, &mk(3 * PAGE, &small));
        nondividing::<[u8; 8192]>(&mut rep, &mk(5 * PAGE, &small));
    }
    rep
}

pub const SHARDS: [&str; 15] = [
    "dense",
    "closure-small",
    "closure-4",
    "closure-6",
    "closure-12",
    "native-u8x1",
    "native-u16x1",
    "native-f32x1",
    "native-u32x2",
    "native-complexx1",
    "native-u64x2",
    "native-u128x1",
    "native-u8x2",
    "native-u128x3",
    "nondividing",
];
