//! Oracles over the executions produced by `envx`, and the search loops that
//! drive them (C08, C09, C10, C12, C16, C19).
use serde_json::{Value, json};
use vcommon::*;

use crate::envx::*;

pub type BuildFn = Box<dyn Fn(&Start) -> Instance + Send + Sync>;

/// Expected output, from an executable specification.
#[derive(Clone, Debug, Default)]
pub struct Spec {
    /// Per output: expected samples (bit patterns). None = not specified.
    pub samples: Vec<Option<Vec<u64>>>,
    /// Per output: expected packets.
    pub packets: Vec<Option<Vec<Vec<u64>>>>,
    /// Per output: expected tags (absolute index, key, value), as a multiset.
    pub tags: Vec<Option<Vec<ATag>>>,
}

pub struct Subject {
    /// Block type, for signatures.
    pub block: String,
    /// Parameters and test vector, human readable.
    pub variant: String,
    /// Natural quantum of the block (samples per smallest unit of work).
    pub quantum: usize,
    pub build: BuildFn,
    pub starts: Vec<Start>,
    /// Pages for the one-shot reference run (ample streams).
    pub ref_pages: usize,
    pub spec: Option<Spec>,
    /// Block has no inputs and never ends: bounded horizon, no flush.
    pub infinite_source: bool,
    /// Number of extra Nop steps to explore for sources.
    pub horizon: usize,
    /// Outputs of the spec are a (long) prefix requirement, not an exact one
    /// (infinite sources).
    pub prefix_spec: bool,
    /// Derive-generated sync block: check the per-call accounting rule.
    pub sync_check: bool,
    /// Added to the horizon of the search (native-type subjects are costly).
    pub horizon_delta: i32,
    /// Skip the "retires when inputs end" clause (documented `nevereof`-style
    /// blocks still have to wait on an ended input, so this is rarely needed).
    pub no_retire_check: bool,
    /// Actions applied before every enumerated sequence, in addition to the
    /// plain enumeration: puts the block in an internal state that the bounded
    /// horizon cannot reach from the initial one (e.g. past a long header).
    pub warmup: Vec<Act>,
}

impl Subject {
    /// Sources are the subjects that skip the retirement check and carry a
    /// sample specification of everything they emit.
    pub fn ins_hint_no_inputs(&self) -> bool {
        self.no_retire_check && !self.infinite_source
    }
    pub fn id(&self) -> String {
        format!("{}[{}]", self.block, self.variant)
    }
}

fn acts_json(acts: &[Act]) -> Value {
    json!(acts.iter().map(|a| a.to_json()).collect::<Vec<_>>())
}

pub fn replay_value(sub: &Subject, start: &Start, acts: &[Act]) -> Value {
    json!({"engine": "envx", "subject": sub.id(), "start": start.to_json(), "acts": acts_json(acts)})
}

/// The action menu for a subject.
pub fn menu(sub: &Subject, inst: &Instance, with_probes: bool) -> Vec<Act> {
    let q = sub.quantum.max(1);
    let mut m = Vec::new();
    let mut amounts = vec![1, 2, q];
    if q > 2 {
        amounts.push(q - 1);
        amounts.push(q + 1);
    }
    amounts.sort();
    amounts.dedup();
    let nin = inst.ins.len();
    for i in 0..nin {
        for &a in &amounts {
            m.push(Act::Feed(i, a));
        }
    }
    if nin > 1 {
        m.push(Act::FeedAll(1));
        m.push(Act::FeedAll(q.max(2)));
    }
    for (j, o) in inst.outs.iter().enumerate() {
        if !o.is_packet() {
            for &a in &amounts {
                m.push(Act::Release(j, a));
            }
        }
    }
    m.push(Act::Nop);
    if nin > 0 {
        m.push(Act::Finish);
    }
    if with_probes {
        m.push(Act::Satisfy);
    }
    m
}

fn first_diff(a: &[u64], b: &[u64]) -> usize {
    a.iter().zip(b.iter()).position(|(x, y)| x != y).unwrap_or(a.len().min(b.len()))
}

/// C08 oracle: outputs of this execution vs the reference execution.
fn chunking_oracle(e: &Exec, reference: &Exec) -> Option<(String, String)> {
    for s in &e.steps {
        if let Verdict::Panic(p) = &s.verdict {
            return Some(("panic".into(), format!("work() panicked: {p}")));
        }
    }
    for s in &e.steps {
        if let Verdict::Err(p) = &s.verdict {
            return Some(("error".into(), format!("work() returned an error the one-shot run did not: {p}")));
        }
    }
    for (j, o) in e.outputs.iter().enumerate() {
        if let Some(b) = &o.bad_window {
            return Some(("bad-window".into(), format!("output {j}: {b}")));
        }
    }
    if let Err(m) = is_prefix(&e.outputs, &reference.outputs) {
        return Some(("output-differs".into(), m));
    }
    if e.completed && reference.completed && e.fed == reference.fed {
        for (j, (x, y)) in e.outputs.iter().zip(reference.outputs.iter()).enumerate() {
            if x.samples.len() != y.samples.len() {
                return Some((
                    "output-short".into(),
                    format!(
                        "output {j}: {} samples after everything was fed and flushed, one-shot run gives {}",
                        x.samples.len(),
                        y.samples.len()
                    ),
                ));
            }
            if x.packets.len() != y.packets.len() {
                return Some((
                    "output-short".into(),
                    format!("output {j}: {} packets, one-shot run gives {}", x.packets.len(), y.packets.len()),
                ));
            }
        }
    }
    None
}

/// C09 oracle over one execution trace.
fn verdict_oracle(sub: &Subject, e: &Exec, ids_in: &[usize], ids_out: &[usize]) -> Option<(String, String)> {
    // Streams satisfied (and still satisfied) during the current run of
    // zero-activity steps.
    let mut chain: Vec<usize> = Vec::new();
    let mut again_idle = 0;
    for (k, s) in e.steps.iter().enumerate() {
        if matches!(s.verdict, Verdict::Panic(_) | Verdict::Err(_)) {
            // Panics belong to C08 / C15. Nothing more to judge here.
            return None;
        }
        if s.live_windows != 0 {
            return Some((
                "leaked-window".into(),
                format!("step {k}: {} stream window(s) still held after work() returned", s.live_windows),
            ));
        }
        if s.activity > 0 {
            chain.clear();
            again_idle = 0;
            continue;
        }
        // Zero activity.
        let env_untouched = matches!(s.act, Act::Nop);
        match &s.verdict {
            Verdict::Again => {
                if env_untouched || again_idle == 0 {
                    again_idle += 1;
                } else {
                    again_idle = 1;
                }
                if again_idle >= 3 {
                    return Some((
                        "idle-spin".into(),
                        format!(
                            "step {k}: 'Again' three times in a row without consuming, producing, or any change in its streams (inputs {:?}, outputs free {:?})",
                            s.ins, s.outs
                        ),
                    ));
                }
            }
            Verdict::WaitStream { id, need, closed } => {
                again_idle = 0;
                // Does the named stream already have what is asked for?
                let (is_in, idx) = if let Some(i) = ids_in.iter().position(|x| x == id) {
                    (true, i)
                } else if let Some(j) = ids_out.iter().position(|x| x == id) {
                    (false, j)
                } else {
                    // An internal stream of a composite block. Can't judge.
                    chain.clear();
                    continue;
                };
                let avail = if is_in { s.ins[idx].1 } else { s.outs[idx].1 };
                let ended = if is_in { s.ins[idx].2 || *closed } else { *closed };
                if avail >= *need && !ended {
                    // Waiting for something it already has. Fine once (status
                    // is computed at the start of work()), but doing it again
                    // with nothing changed is a wait that can never end.
                    if chain.contains(id) {
                        return Some((
                            "false-wait".into(),
                            format!(
                                "step {k}: waits for {need} on {} {idx} which already has {avail}, again, with no progress in between",
                                if is_in { "input" } else { "output" }
                            ),
                        ));
                    }
                    chain.push(*id);
                } else if !ended {
                    // Legitimately lacking. If this very stream was just
                    // satisfied and is lacking again without activity, that's
                    // impossible; ignore.
                    chain.retain(|x| x != id);
                }
                let cap = if is_in { usize::MAX } else { usize::MAX };
                let _ = cap;
            }
            _ => {
                again_idle = 0;
            }
        }
    }
    // Retirement: after the flush tail everything is fed, closed, drained and
    // released. The last verdict has to let a runner retire the block.
    if e.completed && !sub.infinite_source && !sub.no_retire_check {
        if let Some(last) = e.steps.last() {
            let all_in_closed = last.ins.iter().all(|i| i.2);
            if all_in_closed && !last.ins.is_empty() {
                match &last.verdict {
                    Verdict::Eof => {}
                    // Both runners ask the block's own eof() after a wait
                    // verdict.
                    Verdict::WaitStream { .. } | Verdict::WaitFunc if last.eof => {}
                    Verdict::WaitStream { id, closed, .. } => {
                        let on_input = ids_in.contains(id);
                        if !(on_input && *closed) && (ids_in.contains(id) || ids_out.contains(id)) {
                            return Some((
                                "no-retire".into(),
                                format!(
                                    "inputs ended and drained, outputs empty, but the block waits on {} (closed={closed})",
                                    if on_input { "an input" } else { "an output" }
                                ),
                            ));
                        }
                    }
                    v => {
                        return Some((
                            "no-retire".into(),
                            format!("inputs ended and drained, but the verdict is {}", v.short()),
                        ));
                    }
                }
            }
        }
    }
    if !e.completed && !sub.infinite_source && e.steps.iter().all(|s| !matches!(s.verdict, Verdict::Panic(_) | Verdict::Err(_))) {
        return Some((
            "never-quiesces".into(),
            "with all input fed and all output released the block neither finished nor went quiet within the call cap".into(),
        ));
    }
    None
}

/// C12 oracle.
fn tag_oracle(e: &Exec, spec: &Spec) -> Option<(String, String)> {
    for s in &e.steps {
        if matches!(s.verdict, Verdict::Panic(_) | Verdict::Err(_)) {
            return None;
        }
    }
    if !e.completed {
        return None;
    }
    for (j, o) in e.outputs.iter().enumerate() {
        if let Some(b) = &o.bad_tag_pos {
            return Some(("tag-outside-window".into(), format!("output {j}: {b}")));
        }
        if let Some(Some(want)) = spec.tags.get(j) {
            let mut got = o.tags.clone();
            let mut want = want.clone();
            got.sort();
            want.sort();
            if got != want {
                let missing: Vec<_> = want.iter().filter(|t| !got.contains(t)).take(3).collect();
                let extra: Vec<_> = got.iter().filter(|t| !want.contains(t)).take(3).collect();
                let kind = if got.len() > want.len() && extra.is_empty() {
                    "tag-duplicated"
                } else if !extra.is_empty() && missing.is_empty() {
                    "tag-extra"
                } else if extra.is_empty() {
                    "tag-lost"
                } else {
                    "tag-misplaced"
                };
                return Some((
                    kind.into(),
                    format!("output {j}: tags {got:?}, want {want:?} (missing {missing:?}, unexpected {extra:?})"),
                ));
            }
        }
    }
    None
}

/// C10 oracle: the reference execution against the executable specification.
fn spec_oracle(e: &Exec, spec: &Spec) -> Option<(String, String)> {
    for s in &e.steps {
        if let Verdict::Panic(p) = &s.verdict {
            return Some(("panic".into(), format!("work() panicked: {p}")));
        }
        if let Verdict::Err(p) = &s.verdict {
            return Some(("error".into(), format!("work() failed: {p}")));
        }
    }
    for (j, o) in e.outputs.iter().enumerate() {
        if let Some(Some(want)) = spec.samples.get(j) {
            if &o.samples != want {
                let i = first_diff(&o.samples, want);
                return Some((
                    if o.samples.len() != want.len() && i == o.samples.len().min(want.len()) {
                        "count".into()
                    } else {
                        "value".into()
                    },
                    format!(
                        "output {j}: {} samples, specification gives {}; first difference at {i}: got {:x?}, want {:x?}",
                        o.samples.len(),
                        want.len(),
                        o.samples.get(i),
                        want.get(i)
                    ),
                ));
            }
        }
        if let Some(Some(want)) = spec.packets.get(j) {
            if &o.packets != want {
                return Some((
                    "packets".into(),
                    format!("output {j}: packets {:?}, specification gives {:?}", o.packets, want),
                ));
            }
        }
    }
    None
}

/// C16 oracle for sources.
fn source_oracle(sub: &Subject, e: &Exec) -> Option<(String, String)> {
    for s in &e.steps {
        if let Verdict::Panic(p) = &s.verdict {
            return Some(("panic".into(), format!("work() panicked: {p}")));
        }
        if let Verdict::Err(p) = &s.verdict {
            return Some(("error".into(), format!("work() failed: {p}")));
        }
    }
    let spec = sub.spec.as_ref()?;
    let eof_at = e.steps.iter().position(|s| matches!(s.verdict, Verdict::Eof));
    for (j, o) in e.outputs.iter().enumerate() {
        if let Some(b) = &o.bad_tag_pos {
            return Some(("tag".into(), format!("output {j}: {b}")));
        }
        let Some(Some(want)) = spec.samples.get(j) else { continue };
        let n = o.samples.len();
        if n > want.len() || o.samples[..] != want[..n] {
            let i = first_diff(&o.samples, want);
            return Some((
                "too-much-or-wrong".into(),
                format!(
                    "output {j}: emitted {n} samples, data x repeat is {} samples; first difference at {i}: got {:?} want {:?}",
                    want.len(),
                    o.samples.get(i),
                    want.get(i)
                ),
            ));
        }
        if sub.infinite_source {
            if let Some(k) = eof_at {
                return Some(("eof-on-infinite".into(), format!("step {k}: EOF from a source set to repeat forever")));
            }
            continue;
        }
        if let Some(k) = eof_at {
            // Everything emitted by the time EOF is reported?
            if n != want.len() {
                return Some((
                    "eof-early".into(),
                    format!("step {k}: EOF after {n} of {} samples", want.len()),
                ));
            }
        } else if e.completed {
            return Some((
                "no-eof".into(),
                format!("emitted {n} of {} samples and went quiet without ever reporting EOF", want.len()),
            ));
        }
    }
    source_tag_oracle(sub, e)
}

/// Marker tags of a source: the tags on the samples emitted so far are exactly
/// the specified ones for those positions (checked at the end of every
/// execution, not only at EOF).
fn source_tag_oracle(sub: &Subject, e: &Exec) -> Option<(String, String)> {
    if e.steps.iter().any(|s| matches!(s.verdict, Verdict::Panic(_) | Verdict::Err(_))) {
        return None;
    }
    let spec = sub.spec.as_ref()?;
    for (j, o) in e.outputs.iter().enumerate() {
        if let Some(b) = &o.bad_tag_pos {
            return Some(("tag".into(), format!("output {j}: {b}")));
        }
        if let Some(Some(wt)) = spec.tags.get(j) {
            let n = o.samples.len();
            let mut got = o.tags.clone();
            let mut wt: Vec<ATag> = wt.iter().filter(|t| t.0 < n).cloned().collect();
            got.sort();
            wt.sort();
            if got != wt {
                return Some(("marker-tags".into(), format!("output {j}: after {n} samples, tags {got:?}, want {wt:?}")));
            }
        }
    }
    None
}

/// C19 oracle: per-call accounting of a derive-generated sync block.
fn sync_oracle(e: &Exec, ids_in: &[usize], ids_out: &[usize]) -> Option<(String, String)> {
    for (k, s) in e.steps.iter().enumerate() {
        match &s.verdict {
            Verdict::Panic(p) => return Some(("panic".into(), format!("work() panicked: {p}"))),
            Verdict::Err(p) => return Some(("error".into(), format!("work() failed: {p}"))),
            _ => {}
        }
        let avail: Vec<usize> = s.ins.iter().map(|i| i.0).collect();
        let space: Vec<usize> = s.outs.iter().map(|o| o.0).collect();
        let m = avail.iter().chain(space.iter()).copied().min().unwrap_or(0);
        let consumed: Vec<usize> = s.ins.iter().map(|i| i.0 - i.1.min(i.0)).collect();
        let produced: Vec<usize> = s.outs.iter().map(|o| o.0 - o.1.min(o.0)).collect();
        if m > 0 {
            if consumed.iter().any(|c| *c != m) || produced.iter().any(|p| *p != m) {
                return Some((
                    "step-count".into(),
                    format!(
                        "step {k}: inputs had {avail:?}, outputs had room for {space:?}: must process exactly {m}, but consumed {consumed:?} produced {produced:?}"
                    ),
                ));
            }
            if s.verdict != Verdict::Again {
                return Some(("verdict".into(), format!("step {k}: processed {m} steps but verdict is {}", s.verdict.short())));
            }
        } else {
            if consumed.iter().any(|c| *c != 0) || produced.iter().any(|p| *p != 0) {
                return Some((
                    "moved-when-blocked".into(),
                    format!("step {k}: inputs {avail:?} outputs {space:?}: nothing can be processed, but consumed {consumed:?} produced {produced:?}"),
                ));
            }
            match &s.verdict {
                Verdict::WaitStream { id, need, .. } => {
                    let ok_in = ids_in.iter().position(|x| x == id).map(|i| avail[i] == 0);
                    let ok_out = ids_out.iter().position(|x| x == id).map(|j| space[j] == 0);
                    if !(ok_in == Some(true) || ok_out == Some(true)) || *need != 1 {
                        return Some((
                            "wrong-wait".into(),
                            format!(
                                "step {k}: inputs {avail:?} outputs {space:?}: waits (need {need}) on a stream that is not the empty input / full output"
                            ),
                        ));
                    }
                }
                v => {
                    return Some((
                        "verdict".into(),
                        format!("step {k}: nothing can be processed but the verdict is {}", v.short()),
                    ));
                }
            }
        }
    }
    None
}

pub struct EnvCfg {
    pub prop: &'static str,
    pub horizon: usize,
    /// Horizon of the enumeration that follows a warm-up prefix.
    pub warm_horizon: usize,
}

fn ids(inst: &Instance) -> (Vec<usize>, Vec<usize>) {
    (inst.ins.iter().map(|p| p.id()).collect(), inst.outs.iter().map(|p| p.id()).collect())
}

/// Explore one subject for one property.
pub fn explore(rep: &mut Report, sub: &Subject, cfg: &EnvCfg) {
    let prop = cfg.prop;
    // Sources: the flush tail has to be long enough to emit everything.
    let expect = sub
        .spec
        .as_ref()
        .map(|s| s.samples.iter().flatten().map(|v| v.len()).max().unwrap_or(0))
        .unwrap_or(0);
    set_flush_extra(if sub.ins_hint_no_inputs() { 4 * expect } else { 0 });
    // Reference execution: everything at once, ample streams.
    let ref_start = Start {
        in_offset: 0,
        out_offset: 0,
        out_prefill: 0,
        pages: sub.ref_pages,
    };
    let one_shot: Vec<Act> = if sub.infinite_source {
        vec![Act::Nop; sub.horizon.max(1)]
    } else {
        vec![Act::FeedAll(usize::MAX / 4)]
    };
    let reference = execute((sub.build)(&ref_start), &one_shot, !sub.infinite_source);
    rep.evaluations += 1;
    let fail = |rep: &mut Report, p: &str, clause: &str, msg: String, start: &Start, acts: &[Act]| {
        rep.violation(
            format!("{p}/{}/{clause}", sub.block),
            format!("{} start {} actions {}: {msg}", sub.id(), start.to_json(), acts_json(acts)),
            replay_value(sub, start, acts),
        );
    };
    // Content-caused failures in the reference run itself.
    for s in &reference.steps {
        if let Verdict::Panic(p) = &s.verdict {
            // A panic with everything delivered at once is caused by the
            // content (or the mere use) of the input: C15 territory. C08 also
            // says "never a panic".
            let owner = if matches!(prop, "C15" | "C16" | "C19" | "C14" | "C11") { prop } else { "C08" };
            fail(rep, owner, "panic-one-shot", format!("work() panicked in the one-shot run: {p}"), &ref_start, &one_shot);
            return;
        }
    }
    if prop == "C16" || (prop == "C14" && sub.no_retire_check) {
        if let Some((clause, msg)) = source_oracle(sub, &reference) {
            fail(rep, prop, &clause, msg, &ref_start, &one_shot);
        }
    }
    if prop == "C10" {
        if let Some(spec) = &sub.spec {
            if let Some((clause, msg)) = spec_oracle(&reference, spec) {
                fail(rep, "C10", &clause, msg, &ref_start, &one_shot);
            }
        }
    }
    if prop == "C12" && sub.no_retire_check {
        if let Some((clause, msg)) = source_tag_oracle(sub, &reference) {
            fail(rep, "C12", &clause, msg, &ref_start, &one_shot);
        }
    } else if prop == "C12" {
        if let Some(spec) = &sub.spec {
            if let Some((clause, msg)) = tag_oracle(&reference, spec) {
                fail(rep, "C12", &clause, msg, &ref_start, &one_shot);
            }
        }
    }
    if prop == "C09" {
        let inst = (sub.build)(&ref_start);
        let (ii, oo) = ids(&inst);
        drop(inst);
        // Re-run to get ids that match this instance.
        let inst = (sub.build)(&ref_start);
        let (ii2, oo2) = ids(&inst);
        let _ = (ii, oo);
        let e = execute(inst, &one_shot, !sub.infinite_source);
        if let Some((clause, msg)) = verdict_oracle(sub, &e, &ii2, &oo2) {
            fail(rep, "C09", &clause, msg, &ref_start, &one_shot);
        }
    }
    let mut distinct_outcomes = std::collections::HashSet::new();
    let mut nontrivial = 0u64;
    for start in &sub.starts {
        let probe = (sub.build)(start);
        let m = menu(sub, &probe, prop == "C09");
        drop(probe);
        let h = (cfg.horizon as i32 + sub.horizon_delta).max(2) as usize;
        let seqs = if sub.infinite_source {
            let mm: Vec<Act> = m.iter().copied().filter(|a| matches!(a, Act::Release(..) | Act::Nop)).collect();
            sequences(&mm, h + 1)
        } else {
            sequences(&m, h)
        };
        // Nothing can be fed after Finish: those sequences repeat others.
        let after_finish_ok = |s: &Vec<Act>| {
            let mut fin = false;
            for a in s {
                if fin && matches!(a, Act::Feed(..) | Act::FeedAll(_) | Act::Finish) {
                    return false;
                }
                fin |= matches!(a, Act::Finish);
            }
            true
        };
        let seqs: Vec<Vec<Act>> = seqs.into_iter().filter(after_finish_ok).collect();
        let seqs: Vec<Vec<Act>> = if sub.warmup.is_empty() {
            seqs
        } else {
            let mut all = seqs.clone();
            let wh = (cfg.warm_horizon as i32 + sub.horizon_delta).max(2) as usize;
            let wseqs: Vec<Vec<Act>> = if sub.infinite_source || wh >= h {
                seqs.clone()
            } else {
                sequences(&m, wh).into_iter().filter(after_finish_ok).collect()
            };
            for s in &wseqs {
                let mut w = sub.warmup.clone();
                w.extend(s.iter().copied());
                all.push(w);
            }
            all
        };
        for acts in &seqs {
            let inst = (sub.build)(start);
            let (ii, oo) = ids(&inst);
            let e = execute(inst, acts, !sub.infinite_source);
            rep.evaluations += 1;
            rep.transitions += e.steps.len() as u64;
            rep.states += e.steps.len() as u64;
            rep.traces_validated += 1;
            if !acts.is_empty() {
                nontrivial += 1;
            }
            let verdicts: Vec<String> = e.steps.iter().take(e.explicit).map(|s| s.verdict.short()).collect();
            distinct_outcomes.insert(fnv(format!("{verdicts:?}").as_bytes()));
            let r = match prop {
                "C16" => source_oracle(sub, &e).map(|(c, m)| ("C16", c, m)),
                "C14" if sub.no_retire_check => source_oracle(sub, &e).map(|(c, m)| ("C14", c, m)),
                "C14" => chunking_oracle(&e, &reference).map(|(c, m)| ("C14", c, m)),
                "C11" => chunking_oracle(&e, &reference).map(|(c, m)| ("C11", c, m)),
                "C19" => {
                    let mut r = chunking_oracle(&e, &reference).map(|(c, m)| ("C19", c, m));
                    if r.is_none() && sub.sync_check {
                        r = sync_oracle(&e, &ii, &oo).map(|(c, m)| ("C19", c, m));
                    }
                    if r.is_none() && e.completed {
                        if let Some(s) = &sub.spec {
                            r = spec_oracle(&e, s).map(|(c, m)| ("C19", c, m));
                            if r.is_none() {
                                r = tag_oracle(&e, s).map(|(c, m)| ("C19", c, m));
                            }
                        }
                    }
                    r
                }
                "C08" => chunking_oracle(&e, &reference).map(|(c, m)| ("C08", c, m)),
                "C09" => {
                    let mut r = verdict_oracle(sub, &e, &ii, &oo).map(|(c, m)| ("C09", c, m));
                    if r.is_none() {
                        // A wait verdict on which a runner retires the block
                        // (ended input, or eof() true) while the block still
                        // owes output is an untruthful verdict.
                        let retired = matches!(e.steps.last().map(|s| &s.verdict), Some(Verdict::WaitStream { .. } | Verdict::WaitFunc));
                        if retired {
                            if let Some((c, m)) = chunking_oracle(&e, &reference) {
                                if c == "output-short" {
                                    r = Some(("C09", "retired-owing-output".to_string(), format!("the last verdict lets a runner retire the block, but {m}")));
                                }
                            }
                        }
                    }
                    r
                }
                "C12" if sub.no_retire_check => source_tag_oracle(sub, &e).map(|(c, m)| ("C12", c, m)),
                "C12" => sub.spec.as_ref().and_then(|s| tag_oracle(&e, s)).map(|(c, m)| ("C12", c, m)),
                "C10" => {
                    // Chunked delivery has to give the specified result too.
                    match &sub.spec {
                        Some(s) if e.completed => spec_oracle(&e, s).map(|(c, m)| ("C10", c, m)),
                        _ => None,
                    }
                }
                _ => None,
            };
            if let Some((p, clause, msg)) = r {
                // Chunking failures found under other properties' runs belong
                // to C08.
                fail(rep, p, &clause, msg, start, acts);
            } else if matches!(prop, "C09" | "C12" | "C10") {
                // Record panics as foreign (C08) failures so that the evidence
                // shows what blocked the exploration. Except the stream's
                // refusal of a commit or consume larger than the window
                // offered: that is C09's own first clause.
                if let Some((c, m)) = e.steps.iter().find_map(|s| match &s.verdict {
                    Verdict::Panic(p) => Some(("panic".to_string(), format!("work() panicked: {p}"))),
                    _ => None,
                }) {
                    let over = m.contains("tried to produce") || m.contains("trying to consume");
                    if prop == "C09" && over {
                        fail(rep, "C09", "window-exceeded", m, start, acts);
                    } else {
                        fail(rep, "C08", &c, m, start, acts);
                    }
                }
            }
            if rep.samples.len() < 5 && acts.len() >= 2 && rep.evaluations % 997 == 3 {
                rep.sample(json!({"subject": sub.id(), "start": start.to_json(), "actions": acts_json(acts),
                    "verdicts": verdicts}));
            }
        }
    }
    rep.distinct_nontrivial += nontrivial;
    rep.add("distinct_verdict_traces", distinct_outcomes.len() as u64);
    rep.add("subjects", 1);
}

/// "A writer waiting for space is released once its reader is gone", at block
/// level: fill the block's outputs without reading them, end its inputs, let
/// the readers of its outputs go away, and apply the runners' retirement rule
/// to every further call. It has to be retired within a bounded number of
/// calls, or MTGraph::run() never returns.
pub fn downstream_gone(rep: &mut Report, sub: &Subject) {
    let start = Start::plain();
    let mut inst = (sub.build)(&start);
    if inst.outs.is_empty() || inst.outs.iter().all(|o| o.is_packet()) {
        return;
    }
    rep.evaluations += 1;
    rep.distinct_nontrivial += 1;
    let mut log: Vec<String> = vec![];
    let mut dead = false;
    // 1. Feed without ever releasing output, until nothing moves.
    let mut idle = 0;
    for _ in 0..64 {
        for p in &mut inst.ins {
            p.feed(usize::MAX / 4);
            if p.remaining() == 0 && !p.closed() {
                p.close();
            }
        }
        let a0 = rustradio::verif::activity();
        let v = inst.work();
        log.push(v.short());
        match v {
            Verdict::Panic(_) | Verdict::Err(_) | Verdict::Eof => {
                dead = true;
                break;
            }
            _ => {}
        }
        if rustradio::verif::activity() == a0 {
            idle += 1;
            if idle >= 2 {
                break;
            }
        } else {
            idle = 0;
        }
    }
    if dead {
        return;
    }
    // 2. The readers go away.
    for o in &mut inst.outs {
        o.close();
    }
    let ids_out: Vec<usize> = inst.outs.iter().map(|p| p.id()).collect();
    // 3. The runner's loop (an upstream that is still alive keeps delivering).
    for _ in 0..24 {
        for p in &mut inst.ins {
            p.feed(usize::MAX / 4);
            if p.remaining() == 0 && !p.closed() {
                p.close();
            }
        }
        let v = inst.work();
        log.push(v.short());
        let retired = match &v {
            Verdict::Eof | Verdict::Panic(_) | Verdict::Err(_) => true,
            Verdict::WaitStream { id, need, closed } => {
                let eof = catch(|| rustradio::block::BlockEOF::eof(&mut *inst.block)).unwrap_or(false);
                let in_never = inst.ins.iter().any(|p| p.id() == *id && p.closed() && p.backlog() < *need);
                let out_never = *closed && ids_out.contains(id);
                eof || in_never || out_never
            }
            Verdict::WaitFunc => catch(|| rustradio::block::BlockEOF::eof(&mut *inst.block)).unwrap_or(false),
            Verdict::Again | Verdict::Pending => false,
        };
        if retired {
            return;
        }
    }
    let tail: Vec<String> = log.iter().rev().take(8).rev().cloned().collect();
    rep.violation(
        format!("C09/{}/not-released-after-downstream-gone", sub.block),
        format!(
            "{}: outputs full and unread, then the readers of the outputs gone (inputs ended or still being fed): after 24 more calls no verdict lets a runner retire the block (last verdicts {tail:?})",
            sub.id()
        ),
        json!({"engine": "envx", "subject": sub.id(), "mode": "downstream-gone"}),
    );
}

/// Re-run one recorded case and judge it with the oracle of `prop`.
pub fn replay_one(rep: &mut Report, sub: &Subject, prop: &'static str, start: &Start, acts: &[Act]) {
    let ref_start = Start {
        in_offset: 0,
        out_offset: 0,
        out_prefill: 0,
        pages: sub.ref_pages,
    };
    let one_shot: Vec<Act> = if sub.infinite_source {
        vec![Act::Nop; sub.horizon.max(1)]
    } else {
        vec![Act::FeedAll(usize::MAX / 4)]
    };
    let expect = sub
        .spec
        .as_ref()
        .map(|s| s.samples.iter().flatten().map(|v| v.len()).max().unwrap_or(0))
        .unwrap_or(0);
    set_flush_extra(if sub.ins_hint_no_inputs() { 4 * expect } else { 0 });
    let reference = execute((sub.build)(&ref_start), &one_shot, !sub.infinite_source);
    let inst = (sub.build)(start);
    let (ii, oo) = ids(&inst);
    let e = execute(inst, acts, !sub.infinite_source);
    let mut out: Vec<(String, String, String)> = vec![];
    if let Some((c, m)) = chunking_oracle(&e, &reference) {
        out.push(("C08".into(), c, m));
    }
    if let Some((c, m)) = verdict_oracle(sub, &e, &ii, &oo) {
        out.push(("C09".into(), c, m));
    }
    if let Some(spec) = &sub.spec {
        if let Some((c, m)) = tag_oracle(&e, spec) {
            out.push(("C12".into(), c, m));
        }
        if e.completed {
            if let Some((c, m)) = spec_oracle(&e, spec) {
                out.push(("C10".into(), c, m));
            }
        }
    }
    if prop == "C16" || (prop == "C14" && sub.no_retire_check) {
        out.clear();
        if let Some((c, m)) = source_oracle(sub, &e) {
            out.push((prop.to_string(), c, m));
        }
    } else if prop == "C14" {
        let mut v: Vec<(String, String, String)> = vec![];
        for (p, c, m) in out.drain(..) {
            if p == "C08" {
                v.push(("C14".into(), c, m));
            }
        }
        out = v;
    }
    if prop == "C12" && sub.no_retire_check {
        out.clear();
        if let Some((c, m)) = source_tag_oracle(sub, &e) {
            out.push(("C12".into(), c, m));
        }
    }
    if prop == "C11" {
        let mut v: Vec<(String, String, String)> = vec![];
        for (p, c, m) in out.drain(..) {
            if p == "C08" {
                v.push(("C11".into(), c, m));
            }
        }
        out = v;
    }
    if prop == "C19" {
        let mut v: Vec<(String, String, String)> = vec![];
        for (p, c, m) in out.drain(..) {
            if p == "C08" || p == "C10" || p == "C12" {
                v.push(("C19".into(), c, m));
            }
        }
        if sub.sync_check {
            if let Some((c, m)) = sync_oracle(&e, &ii, &oo) {
                v.push(("C19".into(), c, m));
            }
        }
        out = v;
    }
    for s in &reference.steps {
        if let Verdict::Panic(p) = &s.verdict {
            out.push((prop.to_string(), "panic-one-shot".into(), p.clone()));
            out.push(("C08".into(), "panic-one-shot".into(), p.clone()));
            out.push(("C15".into(), "panic-one-shot".into(), p.clone()));
        }
    }
    for (p, c, m) in out {
        rep.violation(format!("{p}/{}/{c}", sub.block), m, json!({}));
    }
}
