//! C11: DSP kernels against their mathematical definitions (f64 references
//! with explicit rounding bounds), over declared finite grids and linear
//! bases. The same engine is built three times (scalar, AVX, portable SIMD)
//! so that each kernel variant is judged.
use rustradio::block::Block;
use rustradio::blocks::*;
use rustradio::fir::Fir;
use rustradio::graph::{Graph, GraphRunner};
use rustradio::verif;
use rustradio::window::WindowType;
use rustradio::Complex;
use serde_json::{Value, json};
use vcommon::*;

fn viol(rep: &mut Report, subject: &str, clause: &str, msg: String, case: Value) {
    rep.violation(format!("C11/{subject}/{clause}"), msg, json!({"engine": "dsp", "case": case}));
}

pub fn kernel_name() -> &'static str {
    if cfg!(all(target_feature = "avx", target_feature = "sse3")) {
        "avx"
    } else if cfg!(feature = "simd") {
        "portable-simd"
    } else {
        "scalar"
    }
}

fn tap_sets(n: usize) -> Vec<(String, Vec<f32>)> {
    let mut v = vec![("ones".to_string(), vec![1.0f32; n])];
    // Unit vectors: every tap position on its own.
    for k in 0..n {
        if n <= 40 || k < 3 || k + 3 >= n || k % 17 == 0 {
            let mut t = vec![0.0f32; n];
            t[k] = 1.0;
            v.push((format!("e{k}"), t));
        }
    }
    v.push(("mixed".to_string(), (0..n).map(|i| ((i * 37 % 23) as f32 - 11.0) / 7.0).collect()));
    v
}

fn inputs(len: usize, small: bool) -> Vec<(String, Vec<f32>)> {
    let mut v = vec![];
    for p in 0..len {
        if small || p < 4 || p + 4 >= len || p % 13 == 0 {
            let mut x = vec![0.0f32; len];
            x[p] = 1.0;
            v.push((format!("impulse@{p}"), x));
        }
    }
    v.push(("step".into(), vec![1.0; len]));
    v.push(("alternating".into(), (0..len).map(|i| if i % 2 == 0 { 1.0 } else { -1.0 }).collect()));
    v.push(("ramp".into(), (0..len).map(|i| i as f32 * 0.25 - 3.0).collect()));
    v.push(("sinusoid".into(), (0..len).map(|i| (i as f32 * 0.3).sin() * 0.8).collect()));
    v
}

fn all_small_seqs(maxlen: usize) -> Vec<Vec<f32>> {
    let alpha = [-1.0f32, 0.0, 1.0];
    let mut out = vec![];
    let mut layer: Vec<Vec<f32>> = vec![vec![]];
    for _ in 0..maxlen {
        let mut next = vec![];
        for s in &layer {
            for a in alpha {
                let mut t = s.clone();
                t.push(a);
                next.push(t);
            }
        }
        out.extend(next.iter().cloned());
        layer = next;
    }
    out
}

/// Direct sliding dot product in f64: y[j] = sum_k taps[k] * x[j + nt - 1 - k],
/// and the bound sum |tap * x| for each output.
fn fir_ref(taps: &[f32], x: &[f32], deci: usize) -> Vec<(f64, f64)> {
    let nt = taps.len();
    if x.len() < nt {
        return vec![];
    }
    let nout = (x.len() - nt + 1) / deci;
    (0..nout)
        .map(|o| {
            let j = o * deci;
            let mut acc = 0f64;
            let mut mag = 0f64;
            for k in 0..nt {
                let p = taps[k] as f64 * x[j + nt - 1 - k] as f64;
                acc += p;
                mag += p.abs();
            }
            (acc, mag)
        })
        .collect()
}

fn run_block_f32(blocks: Vec<Box<dyn Block + Send>>) -> Result<(), String> {
    let mut g = Graph::new();
    for b in blocks {
        g.add(b);
    }
    match catch(|| g.run()) {
        Err(p) => Err(format!("panic: {p}")),
        Ok(Err(e)) => Err(format!("error: {e}")),
        Ok(Ok(())) => Ok(()),
    }
}

fn fir_part(rep: &mut Report, thorough: bool) {
    verif::clear_stream_specs();
    verif::set_default_stream_size(Some(2 * PAGE));
    let mut tap_counts: Vec<usize> = (1..=40).collect();
    tap_counts.extend([63, 64, 65, 127, 128, 129, 200]);
    for nt in tap_counts {
        let len = nt + 19;
        for (tname, taps) in tap_sets(nt) {
            let fir = Fir::new(&taps);
            for (iname, x) in inputs(len, nt <= 8) {
                // Kernel, directly.
                let want = fir_ref(&taps, &x, 1);
                rep.evaluations += 1;
                rep.distinct_nontrivial += 1;
                for (j, (w, mag)) in want.iter().enumerate() {
                    let got = fir.filter_float(&x[j..j + nt]) as f64;
                    let bound = nt as f64 * 2f64.powi(-22) * mag + 1e-30;
                    if !((got - w).abs() <= bound) {
                        viol(
                            rep,
                            "Fir::filter_float",
                            "value",
                            format!("[{}] ntaps {nt} taps {tname} input {iname}: output {j} = {got}, definition gives {w} (bound {bound:e})", kernel_name()),
                            json!({"part": "fir", "ntaps": nt, "taps": tname, "input": iname, "kernel": kernel_name()}),
                        );
                        break;
                    }
                }
            }
            // Block, with decimation, through the runner.
            if tname == "mixed" || tname == "ones" || nt <= 4 {
                for deci in if thorough { (1..=8).collect::<Vec<_>>() } else { vec![1, 2, 3, 8] } {
                    let x: Vec<f32> = (0..len + 8).map(|i| ((i * 29 % 31) as f32 - 15.0) / 8.0).collect();
                    let want = fir_ref(&taps, &x, deci);
                    let (src, o) = VectorSource::new(x.clone());
                    let (f, o) = FirFilterBuilder::new(&taps).deci(deci).build(o);
                    let sink = VectorSink::new(o, usize::MAX / 2);
                    let hook = sink.hook();
                    rep.evaluations += 1;
                    rep.distinct_nontrivial += 1;
                    let case = json!({"part": "firblock", "ntaps": nt, "taps": tname, "deci": deci, "kernel": kernel_name()});
                    if let Err(m) = run_block_f32(vec![Box::new(src), Box::new(f), Box::new(sink)]) {
                        viol(rep, "FirFilter", "run", format!("{case}: {m}"), case);
                        continue;
                    }
                    let got = hook.data().samples().to_vec();
                    if got.len() != want.len() {
                        viol(rep, "FirFilter", "count", format!("{case}: {} outputs, definition gives {}", got.len(), want.len()), case);
                        continue;
                    }
                    for (j, (g, (w, mag))) in got.iter().zip(&want).enumerate() {
                        let bound = nt as f64 * 2f64.powi(-22) * mag + 1e-30;
                        if !((*g as f64 - w).abs() <= bound) {
                            viol(rep, "FirFilter", "value", format!("{case}: output {j} = {g}, definition gives {w}"), case.clone());
                            break;
                        }
                    }
                }
            }
        }
    }
    // Small full alphabet.
    for taps in [vec![1.0f32], vec![1.0, -1.0], vec![0.5, 0.25, 0.125], vec![-1.0, 0.0, 1.0, 2.0]] {
        let fir = Fir::new(&taps);
        for x in all_small_seqs(if thorough { 6 } else { 5 }) {
            if x.len() < taps.len() {
                continue;
            }
            rep.evaluations += 1;
            rep.distinct_nontrivial += 1;
            for (j, (w, _)) in fir_ref(&taps, &x, 1).iter().enumerate() {
                let got = fir.filter_float(&x[j..j + taps.len()]) as f64;
                if (got - w).abs() > 1e-6 {
                    viol(rep, "Fir::filter_float", "value", format!("[{}] taps {taps:?} input {x:?}: output {j} = {got}, want {w}", kernel_name()), json!({"part": "fir-small", "taps": taps, "x": x}));
                    break;
                }
            }
        }
    }
}

fn conv_ref_c(taps: &[Complex], x: &[Complex]) -> Vec<(f64, f64, f64)> {
    // Full linear convolution from sample 0, zero pre-history.
    (0..x.len())
        .map(|n| {
            let (mut re, mut im, mut mag) = (0f64, 0f64, 0f64);
            for (k, t) in taps.iter().enumerate() {
                if n >= k {
                    let xv = x[n - k];
                    re += t.re as f64 * xv.re as f64 - t.im as f64 * xv.im as f64;
                    im += t.re as f64 * xv.im as f64 + t.im as f64 * xv.re as f64;
                    mag += (t.norm() as f64) * (xv.norm() as f64);
                }
            }
            (re, im, mag)
        })
        .collect()
}

fn fft_filter_part(rep: &mut Report, thorough: bool) {
    verif::clear_stream_specs();
    verif::set_default_stream_size(Some(4 * PAGE));
    for nt in if thorough { vec![1usize, 2, 3, 5, 8, 16, 17, 31, 33, 64] } else { vec![1usize, 2, 3, 8, 17, 33] } {
        let fft_size = {
            let mut n = 1;
            while n < nt {
                n <<= 1;
            }
            2 * n
        };
        let len = 2 * fft_size + 3;
        let tapsets: Vec<(String, Vec<f32>)> = tap_sets(nt);
        for (tname, ft) in tapsets {
            let ctaps: Vec<Complex> = ft.iter().map(|t| Complex::new(*t, 0.0)).collect();
            for (iname, fx) in inputs(len, false) {
                let cx: Vec<Complex> = fx.iter().enumerate().map(|(i, v)| Complex::new(*v, if i % 3 == 0 { 0.5 * v } else { 0.0 })).collect();
                let want = conv_ref_c(&ctaps, &cx);
                let tol_scale = (fft_size as f64).log2().max(1.0) * nt as f64 * 2f64.powi(-21);
                let case = json!({"part": "fftfilter", "ntaps": nt, "taps": tname, "input": iname});
                rep.evaluations += 2;
                rep.distinct_nontrivial += 2;
                // Complex filter.
                {
                    let (src, o) = VectorSource::new(cx.clone());
                    let (f, o) = FftFilter::new(o, &ctaps);
                    let sink = VectorSink::new(o, usize::MAX / 2);
                    let hook = sink.hook();
                    if let Err(m) = run_block_f32(vec![Box::new(src), Box::new(f), Box::new(sink)]) {
                        viol(rep, "FftFilter", "run", format!("{case}: {m}"), case.clone());
                    } else {
                        let got = hook.data().samples().to_vec();
                        // Whole blocks only: fft_size - ntaps samples each.
                        let blk = fft_size - nt;
                        let expect_n = (cx.len() / blk) * blk;
                        if got.len() != expect_n {
                            viol(rep, "FftFilter", "count", format!("{case}: {} outputs, expected {expect_n} (whole blocks of {blk})", got.len()), case.clone());
                        } else {
                            let peak = want.iter().map(|w| w.2).fold(0f64, f64::max).max(1e-9);
                            for (n, g) in got.iter().enumerate() {
                                let (re, im, _) = want[n];
                                let bound = tol_scale * peak * 8.0 + 1e-6;
                                if !((g.re as f64 - re).abs() <= bound && (g.im as f64 - im).abs() <= bound) {
                                    viol(rep, "FftFilter", "value", format!("{case}: output {n} = {g}, linear convolution gives ({re}, {im}) (bound {bound:e})"), case.clone());
                                    break;
                                }
                            }
                        }
                    }
                }
                // Float filter.
                {
                    let want: Vec<(f64, f64)> = (0..fx.len())
                        .map(|n| {
                            let (mut a, mut m) = (0f64, 0f64);
                            for (k, t) in ft.iter().enumerate() {
                                if n >= k {
                                    a += *t as f64 * fx[n - k] as f64;
                                    m += (*t as f64 * fx[n - k] as f64).abs();
                                }
                            }
                            (a, m)
                        })
                        .collect();
                    let (src, o) = VectorSource::new(fx.clone());
                    let (f, o) = FftFilterFloat::new(o, &ft);
                    let sink = VectorSink::new(o, usize::MAX / 2);
                    let hook = sink.hook();
                    if let Err(m) = run_block_f32(vec![Box::new(src), Box::new(f), Box::new(sink)]) {
                        viol(rep, "FftFilterFloat", "run", format!("{case}: {m}"), case.clone());
                    } else {
                        let got = hook.data().samples().to_vec();
                        let blk = fft_size - nt;
                        let expect_n = (fx.len() / blk) * blk;
                        if got.len() != expect_n {
                            viol(rep, "FftFilterFloat", "count", format!("{case}: {} outputs, expected {expect_n}", got.len()), case.clone());
                        } else {
                            let peak = want.iter().map(|w| w.1).fold(0f64, f64::max).max(1e-9);
                            for (n, g) in got.iter().enumerate() {
                                let bound = tol_scale * peak * 8.0 + 1e-6;
                                if !((*g as f64 - want[n].0).abs() <= bound) {
                                    viol(rep, "FftFilterFloat", "value", format!("{case}: output {n} = {g}, linear convolution gives {} (bound {bound:e})", want[n].0), case.clone());
                                    break;
                                }
                            }
                            // FFT output == FIR output delayed by ntaps-1.
                            let fir = fir_ref(&ft, &fx, 1);
                            for (j, (w, _)) in fir.iter().enumerate() {
                                let n = j + nt - 1;
                                if n < got.len() {
                                    let bound = tol_scale * peak * 8.0 + 1e-6;
                                    if !((got[n] as f64 - w).abs() <= bound) {
                                        viol(rep, "FftFilterFloat", "fir-agreement", format!("{case}: FFT output {n} = {}, FIR output {j} = {w}", got[n]), case.clone());
                                        break;
                                    }
                                }
                            }
                        }
                    }
                }
            }
        }
    }
}

fn misc_part(rep: &mut Report, thorough: bool) {
    // IIR: y[n] = t0 x[n] + sum_{i>=1} t_i y[n-i].
    use rustradio::iir_filter::{Filter, IirFilter};
    for taps in [vec![1.0f32], vec![0.5, 0.5], vec![0.2, 0.3, 0.4], vec![1.0, -0.5, 0.25, -0.125], vec![0.1, 0.9]] {
        for (iname, x) in inputs(24, true) {
            let mut f = IirFilter::new(&taps);
            let mut ys: Vec<f64> = vec![];
            rep.evaluations += 1;
            rep.distinct_nontrivial += 1;
            for (n, xv) in x.iter().enumerate() {
                let got = f.filter(*xv) as f64;
                let mut want = taps[0] as f64 * *xv as f64;
                for i in 1..taps.len() {
                    if n >= i {
                        want += taps[i] as f64 * ys[n - i];
                    }
                }
                ys.push(want);
                if (got - want).abs() > 1e-4 * (1.0 + want.abs()) {
                    viol(rep, "IirFilter", "recurrence", format!("taps {taps:?} input {iname}: y[{n}] = {got}, recurrence gives {want}"), json!({"part": "iir", "taps": taps, "input": iname}));
                    break;
                }
            }
        }
    }
    // Both entry points on one filter (they share its history): plain and
    // clamped calls alternating, with clamps wide enough never to engage, is
    // the plain recurrence.
    {
        use rustradio::iir_filter::ClampedFilter;
        for taps in [vec![0.5f32, 0.5], vec![0.2, 0.3, 0.4], vec![1.0, -0.5, 0.25, -0.125], vec![0.3, 0.1, 0.2, 0.1, 0.05]] {
            for pattern in [[false, true, false, true], [true, true, false, false], [false, false, false, true]] {
                let x: Vec<f32> = (0..16).map(|i| ((i * 7 % 5) as f32 - 2.0) * 0.25).collect();
                let mut f = IirFilter::new(&taps);
                let mut ys: Vec<f64> = vec![];
                rep.evaluations += 1;
                rep.distinct_nontrivial += 1;
                for (n, xv) in x.iter().enumerate() {
                    let got = if pattern[n % 4] { f.filter_clamped(*xv, -1e6, 1e6) } else { f.filter(*xv) } as f64;
                    let mut want = taps[0] as f64 * *xv as f64;
                    for i in 1..taps.len() {
                        if n >= i {
                            want += taps[i] as f64 * ys[n - i];
                        }
                    }
                    ys.push(want);
                    if (got - want).abs() > 1e-4 * (1.0 + want.abs()) {
                        viol(
                            rep,
                            "IirFilter",
                            "mixed-recurrence",
                            format!("taps {taps:?}, calls (true = clamped) {pattern:?} repeating: y[{n}] = {got}, recurrence gives {want}"),
                            json!({"part": "iir-mixed", "taps": taps}),
                        );
                        break;
                    }
                }
            }
        }
    }
    // Clamped IIR: y[n] = clamp(t0 x[n] + sum t_i y[n-i]); the *clamped* value
    // is what is fed back.
    {
        use rustradio::iir_filter::ClampedFilter;
        for taps in [vec![1.0f32, 0.0], vec![0.5, 0.5], vec![0.2, 0.3, 0.4], vec![0.1, 0.9]] {
            for (lo, hi) in [(0.0f32, 1.0f32), (-0.5, 0.5), (-10.0, 10.0)] {
                for (iname, x) in [
                    ("saturating-step", vec![5.0f32, 5.0, 5.0, 0.0, 0.0, 0.0, 0.0, -5.0, -5.0, 0.0, 0.0, 0.3, 0.3]),
                    ("outlier", vec![0.1, 0.2, 100.0, 0.1, 0.1, 0.1, -100.0, 0.2, 0.2, 0.2]),
                    ("inside", vec![0.1, 0.2, 0.3, 0.2, 0.1, 0.0, -0.1, -0.2]),
                ] {
                    let mut f = IirFilter::new(&taps);
                    let mut ys: Vec<f64> = vec![];
                    rep.evaluations += 1;
                    rep.distinct_nontrivial += 1;
                    for (n, xv) in x.iter().enumerate() {
                        let got = f.filter_clamped(*xv, lo, hi) as f64;
                        let mut want = taps[0] as f64 * *xv as f64;
                        for i in 1..taps.len() {
                            if n >= i {
                                want += taps[i] as f64 * ys[n - i];
                            }
                        }
                        let want = want.clamp(lo as f64, hi as f64);
                        ys.push(want);
                        if (got - want).abs() > 1e-4 * (1.0 + want.abs()) {
                            viol(
                                rep,
                                "IirFilter",
                                "clamped-recurrence",
                                format!("taps {taps:?} clamp [{lo},{hi}] input {iname}: y[{n}] = {got}, recurrence gives {want}"),
                                json!({"part": "iir-clamped", "taps": taps, "input": iname}),
                            );
                            break;
                        }
                    }
                }
            }
        }
    }
    // Hilbert: re[k] = x[k - (N+1)/2] (zero before the start), im = FIR of the
    // hilbert taps over the same window.
    verif::clear_stream_specs();
    verif::set_default_stream_size(Some(2 * PAGE));
    for ntaps in [3usize, 5, 9, 31, 65] {
        for wt in [WindowType::Hamming, WindowType::Blackman] {
            let x: Vec<f32> = (0..ntaps + 40).map(|i| (i as f32 * 0.37).sin()).collect();
            let taps = rustradio::fir::hilbert(&wt.make_window(ntaps));
            let (src, o) = VectorSource::new(x.clone());
            let (h, o) = Hilbert::new(o, ntaps, &wt);
            let sink = VectorSink::new(o, usize::MAX / 2);
            let hook = sink.hook();
            rep.evaluations += 1;
            rep.distinct_nontrivial += 1;
            let case = json!({"part": "hilbert", "ntaps": ntaps});
            if let Err(m) = run_block_f32(vec![Box::new(src), Box::new(h), Box::new(sink)]) {
                viol(rep, "Hilbert", "run", format!("{case}: {m}"), case);
                continue;
            }
            let got = hook.data().samples().to_vec();
            if got.len() != x.len() {
                viol(rep, "Hilbert", "count", format!("{case}: {} outputs for {} inputs", got.len(), x.len()), case);
                continue;
            }
            let d = (ntaps + 1) / 2;
            // iv = zeros(ntaps) ++ x ; out[i] = (iv[i + ntaps/2], fir(iv[i..i+ntaps]))
            let mut iv = vec![0f32; ntaps];
            iv.extend(&x);
            for (k, g) in got.iter().enumerate() {
                let want_re = if k >= d { x[k - d] } else { 0.0 };
                let mut im = 0f64;
                for j in 0..ntaps {
                    im += taps[j] as f64 * iv[k + ntaps - 1 - j] as f64;
                }
                if g.re.to_bits() != want_re.to_bits() || (g.im as f64 - im).abs() > 1e-4 {
                    viol(rep, "Hilbert", "identity", format!("{case}: output {k} = {g}, want re {want_re} (input delayed by {d}) im {im}"), case.clone());
                    break;
                }
            }
        }
    }
    // FM demodulators. QuadratureDemod: y[n] = gain * arg(x[n] conj(x[n-1])),
    // x[-1] = 0. FastFM (Lyons): y[n] = (Im x[n] - Im x[n-2]) Re x[n-1]
    // - (Re x[n] - Re x[n-2]) Im x[n-1], zero history. arg(0) is left open by
    // the definition; +pi and -pi are the same angle.
    {
        let mut sigs: Vec<(String, Vec<Complex>)> = vec![];
        for (k, w) in [0.0f64, 0.1, 0.7, 1.5, 3.0, -0.4, -2.9, std::f64::consts::PI].iter().enumerate() {
            sigs.push((format!("phasor step {w}"), (0..24).map(|i| {
                let p = w * i as f64 + 0.3 * k as f64;
                Complex::new((p.cos() * (1.0 + 0.1 * (i % 3) as f64)) as f32, (p.sin() * (1.0 + 0.1 * (i % 3) as f64)) as f32)
            }).collect()));
        }
        // Real-valued signals that change sign: the product is a negative
        // real number, the angle is pi.
        sigs.push(("real square wave".into(), (0..24).map(|i| Complex::new(if (i / 3) % 2 == 0 { 0.5 } else { -0.5 }, 0.0)).collect()));
        sigs.push(("nyquist tone".into(), (0..24).map(|i| Complex::new(if i % 2 == 0 { 1.0 } else { -1.0 }, 0.0)).collect()));
        sigs.push(("imaginary square wave".into(), (0..24).map(|i| Complex::new(0.0, if (i / 2) % 2 == 0 { 0.25 } else { -0.75 })).collect()));
        sigs.push(("silence then carrier".into(), (0..24).map(|i| if i < 8 { Complex::new(0.0, 0.0) } else { Complex::new(0.7, 0.0) }).collect()));
        verif::set_default_stream_size(Some(PAGE));
        for (name, x) in &sigs {
            for gain in [1.0f32, 0.5, -2.0] {
                let (src, o) = VectorSource::new(x.clone());
                let (b, o) = QuadratureDemod::new(o, gain);
                let sink = VectorSink::new(o, usize::MAX / 2);
                let hook = sink.hook();
                rep.evaluations += 1;
                rep.distinct_nontrivial += 1;
                let case = json!({"part": "quadrature_demod", "signal": name, "gain": gain});
                if let Err(m) = run_block_f32(vec![Box::new(src), Box::new(b), Box::new(sink)]) {
                    viol(rep, "QuadratureDemod", "run", format!("{case}: {m}"), case);
                    continue;
                }
                let got = hook.data().samples().to_vec();
                if got.len() != x.len() {
                    viol(rep, "QuadratureDemod", "count", format!("{case}: {} outputs for {} inputs", got.len(), x.len()), case);
                    continue;
                }
                for n in 1..x.len() {
                    let (a, b) = (x[n], x[n - 1]);
                    let re = a.re as f64 * b.re as f64 + a.im as f64 * b.im as f64;
                    let im = a.im as f64 * b.re as f64 - a.re as f64 * b.im as f64;
                    if re == 0.0 && im == 0.0 {
                        continue;
                    }
                    let want = gain as f64 * im.atan2(re);
                    let g = got[n] as f64;
                    let at_pi = (im.atan2(re).abs() - std::f64::consts::PI).abs() < 1e-6;
                    let ok = (g - want).abs() < 2e-5 * (1.0 + want.abs()) || (at_pi && (g.abs() - want.abs()).abs() < 2e-5 * (1.0 + want.abs()));
                    if !ok {
                        viol(rep, "QuadratureDemod", "identity", format!("{case}: y[{n}] = {g}, gain * arg(x[n] conj x[n-1]) = {want}"), case.clone());
                        break;
                    }
                }
            }
            let (src, o) = VectorSource::new(x.clone());
            let (b, o) = FastFM::new(o);
            let sink = VectorSink::new(o, usize::MAX / 2);
            let hook = sink.hook();
            rep.evaluations += 1;
            rep.distinct_nontrivial += 1;
            let case = json!({"part": "fastfm", "signal": name});
            if let Err(m) = run_block_f32(vec![Box::new(src), Box::new(b), Box::new(sink)]) {
                viol(rep, "FastFM", "run", format!("{case}: {m}"), case);
                continue;
            }
            let got = hook.data().samples().to_vec();
            if got.len() != x.len() {
                viol(rep, "FastFM", "count", format!("{case}: {} outputs for {} inputs", got.len(), x.len()), case);
                continue;
            }
            let z = Complex::new(0.0, 0.0);
            for n in 0..x.len() {
                let q1 = if n >= 1 { x[n - 1] } else { z };
                let q2 = if n >= 2 { x[n - 2] } else { z };
                let want = (x[n].im as f64 - q2.im as f64) * q1.re as f64 - (x[n].re as f64 - q2.re as f64) * q1.im as f64;
                if (got[n] as f64 - want).abs() > 1e-5 * (1.0 + want.abs()) {
                    viol(rep, "FastFM", "identity", format!("{case}: y[{n}] = {}, Lyons' differentiator gives {want}", got[n]), case.clone());
                    break;
                }
            }
        }
    }
    // Low-pass taps: symmetric, unit DC gain.
    let rates = if thorough { vec![8000.0f32, 44100.0, 48000.0, 50000.0, 1e6] } else { vec![8000.0f32, 50000.0] };
    for (wname, wt) in [
        ("Hamming", WindowType::Hamming),
        ("HammingParm(0.54)", WindowType::HammingParm(0.54)),
        ("Blackman", WindowType::Blackman),
        ("BlackmanHarris", WindowType::BlackmanHarris),
    ] {
        for &rate in &rates {
            for cutoff_frac in [0.02f32, 0.1, 0.25] {
                for tw_frac in [0.01f32, 0.05, 0.2] {
                    let taps = rustradio::fir::low_pass(rate, rate * cutoff_frac, rate * tw_frac, &wt);
                    rep.evaluations += 1;
                    rep.distinct_nontrivial += 1;
                    let n = taps.len();
                    let case = json!({"part": "lowpass", "window": wname, "rate": rate, "cutoff": rate * cutoff_frac, "twidth": rate * tw_frac, "ntaps": n});
                    let sum: f64 = taps.iter().map(|t| *t as f64).sum();
                    let scale = taps.iter().fold(0f32, |a, t| a.max(t.abs())) as f64;
                    if let Some(i) = (0..n / 2).find(|i| ((taps[*i] - taps[n - 1 - *i]).abs() as f64) > 1e-5 * scale.max(1e-9)) {
                        viol(rep, "low_pass", "asymmetric", format!("{case}: taps[{i}] = {}, taps[{}] = {}", taps[i], n - 1 - i, taps[n - 1 - i]), case.clone());
                    }
                    if (sum - 1.0).abs() > 1e-4 {
                        viol(rep, "low_pass", "dc-gain", format!("{case}: taps sum to {sum}, want 1"), case);
                    }
                }
            }
        }
    }
    // FftStream against an O(n^2) DFT.
    verif::set_default_stream_size(Some(PAGE));
    for size in [1usize, 2, 3, 4, 8, 16, 25] {
        let x: Vec<Complex> = (0..3 * size + 1).map(|i| Complex::new((i as f32 * 0.9).cos(), (i as f32 * 0.4).sin() * 0.5)).collect();
        let (src, o) = VectorSource::new(x.clone());
        let (f, o) = FftStream::new(o, size);
        let sink = VectorSink::new(o, usize::MAX / 2);
        let hook = sink.hook();
        rep.evaluations += 1;
        rep.distinct_nontrivial += 1;
        let case = json!({"part": "fftstream", "size": size});
        if let Err(m) = run_block_f32(vec![Box::new(src), Box::new(f), Box::new(sink)]) {
            viol(rep, "FftStream", "run", format!("{case}: {m}"), case);
            continue;
        }
        let got = hook.data().samples().to_vec();
        let nframes = x.len() / size;
        if got.len() != nframes * size {
            viol(rep, "FftStream", "count", format!("{case}: {} outputs, want {}", got.len(), nframes * size), case);
            continue;
        }
        'f: for f in 0..nframes {
            for k in 0..size {
                let (mut re, mut im) = (0f64, 0f64);
                for n in 0..size {
                    let a = -2.0 * std::f64::consts::PI * (k * n) as f64 / size as f64;
                    let xv = x[f * size + n];
                    re += xv.re as f64 * a.cos() - xv.im as f64 * a.sin();
                    im += xv.re as f64 * a.sin() + xv.im as f64 * a.cos();
                }
                let g = got[f * size + k];
                if (g.re as f64 - re).abs() > 1e-4 * size as f64 || (g.im as f64 - im).abs() > 1e-4 * size as f64 {
                    viol(rep, "FftStream", "dft", format!("{case}: frame {f} bin {k} = {g}, DFT gives ({re}, {im})"), case.clone());
                    break 'f;
                }
            }
        }
    }
}

pub fn replay_json(v: &Value) -> Result<(), String> {
    let mut rep = Report::new("C11", "dsp");
    match v["case"]["part"].as_str().unwrap_or("") {
        "fir" | "firblock" | "fir-small" => fir_part(&mut rep, true),
        "fftfilter" => fft_filter_part(&mut rep, true),
        _ => misc_part(&mut rep, true),
    }
    let sig = v["signature"].as_str().unwrap_or("");
    let _ = sig;
    match rep.violations.first() {
        Some(x) => Err(format!("[{}] {}", x.signature, x.message)),
        None => Ok(()),
    }
}

pub fn run(tier: &str, shard: Option<&str>) -> Report {
    let thorough = tier == "thorough";
    let mut rep = Report::new("C11", "dsp");
    rep.rule = "declared finite grids: FIR kernel and block for tap counts 1..40, 63..65, 127..129, 200 (every residue mod 8) x \
        tap sets {every unit vector, all-ones, mixed} x inputs {unit impulse at every position, step, alternating, ramp, \
        sinusoid} plus all sequences up to length 5 over {-1,0,1}; decimations 1..8; FFT filters for tap counts up to 33 (64) \
        over the same bases against direct f64 convolution and against the FIR output; IIR recurrence, Hilbert identity, FM demodulator identities (QuadratureDemod, FastFM) on phasors, sign-changing \
        real signals and silence, low-pass symmetry and DC gain for four windows x rate/cutoff/width grid; FftStream against an O(n^2) DFT. Every case \
        is distinct and non-trivial. The floating-point input space itself is not enumerable: impulse x unit-tap bases are \
        complete for bilinear implementations, the small alphabet is there for the others."
        .into();
    rep.assumptions = vec![format!("this run judged the '{}' FIR kernel build", kernel_name()), "rounding bounds: ntaps * 2^-22 * sum|tap*x| for dot products; (log2 fft_size) * ntaps * 2^-21 * peak for FFT filters".into()];
    let want = |p: &str| shard.map(|s| s == p).unwrap_or(true);
    if want("fir") {
        fir_part(&mut rep, thorough);
    }
    if want("fftfilter") {
        fft_filter_part(&mut rep, thorough);
    }
    if want("misc") {
        misc_part(&mut rep, thorough);
    }
    rep.set("kernel", json!(kernel_name()));
    rep.states = rep.evaluations;
    rep.transitions = rep.evaluations;
    rep.traces_validated = rep.evaluations;
    rep.sample(json!({"part": "fir", "ntaps": 65, "taps": "e64", "input": "impulse@64", "kernel": kernel_name()}));
    rep.sample(json!({"part": "lowpass", "window": "Blackman", "rate": 50000.0, "cutoff": 5000.0, "twidth": 2500.0}));
    rep
}
