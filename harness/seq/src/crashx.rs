//! C15: input content can never crash a block, decoder or parser. Exhaustive
//! small-domain enumeration of inputs; each case runs the real code to
//! quiescence under catch_unwind with a call cap.
use rustradio::Sample;
use rustradio::block::Block;
use rustradio::blocks::*;
use rustradio::stream::{ReadStream, TagValue};
use rustradio::verif;
use rustradio::{Complex, Float};
use serde_json::{Value, json};
use vcommon::*;

use crate::envx::*;

fn bx<B: Block + 'static>(b: B) -> Box<dyn Block> {
    Box::new(b)
}

/// Run an instance: feed everything, flush. Err(kind, msg) on panic or spin.
fn run_inst(inst: Instance) -> Result<(), (String, String)> {
    let e = execute(inst, &[Act::FeedAll(usize::MAX / 4)], true);
    for s in &e.steps {
        if let Verdict::Panic(p) = &s.verdict {
            return Err(("panic".into(), p.clone()));
        }
    }
    for o in &e.outputs {
        if let Some(b) = &o.bad_window {
            return Err(("bad-window".into(), b.clone()));
        }
    }
    let errored = e.steps.iter().any(|s| matches!(s.verdict, Verdict::Err(_)));
    if !e.completed && !errored {
        return Err(("spin".into(), "did not go quiet within the call cap".into()));
    }
    Ok(())
}

fn one_in<Ti, To, F>(data: Vec<Ti>, tags: Vec<(usize, String, TagValue)>, ctor: F) -> Result<(), (String, String)>
where
    Ti: Copy + 'static,
    To: Copy + Bits + 'static,
    F: FnOnce(ReadStream<Ti>) -> (Box<dyn Block>, ReadStream<To>),
{
    let st = Start::plain();
    verif::clear_stream_specs();
    let (ip, r) = sin(&st, data, tags);
    let (b, o) = ctor(r);
    run_inst(Instance {
        block: b,
        ins: vec![ip],
        outs: vec![sout(&st, o)],
    })
}

fn one_in_p<Ti, To, F>(data: Vec<Ti>, tags: Vec<(usize, String, TagValue)>, ctor: F) -> Result<(), (String, String)>
where
    Ti: Copy + 'static,
    To: Bits + 'static,
    F: FnOnce(ReadStream<Ti>) -> (Box<dyn Block>, rustradio::stream::NCReadStream<Vec<To>>),
{
    let st = Start::plain();
    verif::clear_stream_specs();
    let (ip, r) = sin(&st, data, tags);
    let (b, o) = ctor(r);
    run_inst(Instance {
        block: b,
        ins: vec![ip],
        outs: vec![pout(o)],
    })
}

fn p_in_p<F>(packets: Vec<Vec<f32>>, ctor: F) -> Result<(), (String, String)>
where
    F: FnOnce(rustradio::stream::NCReadStream<Vec<f32>>) -> (Box<dyn Block>, rustradio::stream::NCReadStream<Vec<f32>>),
{
    let (ip, r) = pin(packets);
    let (b, o) = ctor(r);
    run_inst(Instance {
        block: b,
        ins: vec![ip],
        outs: vec![pout(o)],
    })
}

fn seqs<T: Copy>(alpha: &[T], maxlen: usize) -> Vec<Vec<T>> {
    let mut out = vec![vec![]];
    let mut layer: Vec<Vec<T>> = vec![vec![]];
    for _ in 0..maxlen {
        let mut next = vec![];
        for s in &layer {
            for a in alpha {
                let mut t = s.clone();
                t.push(*a);
                next.push(t);
            }
        }
        out.extend(next.iter().cloned());
        layer = next;
    }
    out
}

fn au_header(offset: u32, size: u32, enc: u32, rate: u32, ch: u32) -> Vec<u8> {
    let mut v = vec![];
    v.extend(0x2e736e64u32.to_be_bytes());
    v.extend(offset.to_be_bytes());
    v.extend(size.to_be_bytes());
    v.extend(enc.to_be_bytes());
    v.extend(rate.to_be_bytes());
    v.extend(ch.to_be_bytes());
    v.extend([0u8, 0, 0, 0]);
    v.extend([1u8, 2, 3, 4, 5, 6, 7, 8, 9, 10, 11, 12]);
    v
}

pub fn replay_json(v: &Value) -> Result<(), String> {
    let want = v["case"].clone();
    let fam = v["family"].as_str().unwrap().to_string();
    let mut rep = Report::new("C15", "crashx");
    run_family(&mut rep, &fam, true, Some(&want));
    match rep.violations.first() {
        Some(x) => Err(format!("[{}] {}", x.signature, x.message)),
        None => Ok(()),
    }
}

fn fl(x: f32) -> Value {
    json!(format!("{:#010x}", x.to_bits()))
}
fn unfl(v: &Value) -> f32 {
    f32::from_bits(u32::from_str_radix(v.as_str().unwrap().trim_start_matches("0x"), 16).unwrap())
}

/// One family of cases. If `only` is given, run just that case (replay).
fn run_family(rep: &mut Report, fam: &str, thorough: bool, only: Option<&Value>) {
    let mut case = |rep: &mut Report, subject: &str, desc: Value, r: Result<(), (String, String)>| {
        rep.evaluations += 1;
        rep.distinct_nontrivial += 1;
        if let Err((kind, msg)) = r {
            rep.violation(
                format!("C15/{subject}/{kind}"),
                format!("{subject} on {desc}: {msg}"),
                json!({"engine": "crashx", "family": fam, "case": desc}),
            );
        }
    };
    match fam {
        "bursts" => {
            // Whole-packet blocks on every burst of length 0..8 over a small
            // alphabet, plus a few extreme singles.
            let alpha = [-1.0f32, 0.0, 1.0, f32::NAN];
            let mut all = seqs(&alpha, if thorough { 8 } else { 7 });
            for x in [1e30f32, -1e30, f32::INFINITY, f32::NEG_INFINITY] {
                all.push(vec![x]);
                all.push(vec![x, 1.0, -1.0, 1.0, x]);
                all.push(vec![x; 6]);
            }
            if let Some(o) = only {
                all = vec![o["burst"].as_array().unwrap().iter().map(unfl).collect()];
            }
            for b in all {
                let d = json!({"burst": b.iter().map(|x| fl(*x)).collect::<Vec<_>>()});
                let want_blk = only.and_then(|o| o["block"].as_str()).unwrap_or("");
                if want_blk.is_empty() || want_blk == "Midpointer" {
                    let mut dd = d.clone();
                    dd["block"] = json!("Midpointer");
                    case(rep, "Midpointer", dd, p_in_p(vec![b.clone()], |r| {
                        let (blk, o) = Midpointer::new(r);
                        (bx(blk), o)
                    }));
                }
                if want_blk.is_empty() || want_blk == "Wpcr" {
                    let mut dd = d.clone();
                    dd["block"] = json!("Wpcr");
                    case(rep, "Wpcr", dd, p_in_p(vec![b.clone()], |r| {
                        let (blk, o) = Wpcr::new(r);
                        (bx(blk), o)
                    }));
                }
            }
        }
        "bits" => {
            // Bit-stream blocks on every bit string up to 14 (12) bits.
            let maxlen = if thorough { 14 } else { 12 };
            let mut all: Vec<Vec<u8>> = vec![];
            for l in 0..=maxlen {
                for x in 0..(1u32 << l) {
                    all.push((0..l).map(|i| ((x >> i) & 1) as u8).collect());
                }
            }
            // The deframer behaves differently once it has seen a flag: every
            // bit string again, after a flag.
            if only.is_none() {
                let n = all.len();
                for i in 0..n {
                    if all[i].len() <= 12 {
                        let mut b = vcommon::specs::FLAG.to_vec();
                        b.extend(&all[i]);
                        all.push(b);
                    }
                }
            }
            if let Some(o) = only {
                all = vec![o["bits"].as_str().unwrap().bytes().map(|b| b - b'0').collect()];
            }
            for b in all {
                let s: String = b.iter().map(|x| char::from(b'0' + x)).collect();
                let d = json!({"bits": s});
                for (min, max, cs, fix) in [(0usize, 2usize, true, false), (0, 3, false, false), (1, 4, true, true)] {
                    let b2 = b.clone();
                    case(rep, "HdlcDeframer", d.clone(), one_in_p(b2, vec![], |r| {
                        let (mut blk, o) = HdlcDeframer::new(r, min, max);
                        blk.set_checksum(cs);
                        blk.set_fix_bits(fix);
                        (bx(blk), o)
                    }));
                }
                case(rep, "NrziDecode", d.clone(), one_in(b.clone(), vec![], |r| {
                    let (blk, o) = NrziDecode::new(r);
                    (bx(blk), o)
                }));
                case(rep, "Descrambler", d.clone(), one_in(b.clone(), vec![], |r| {
                    let (blk, o) = Descrambler::new(r, 0x21, 0, 16);
                    (bx(blk), o)
                }));
                case(rep, "CorrelateAccessCodeTag", d.clone(), one_in(b.clone(), vec![], |r| {
                    let (blk, o) = CorrelateAccessCodeTag::new(r, vec![1, 0, 1], "sync", 1);
                    (bx(blk), o)
                }));
                // IL2P: sync tag on the first bit, then whatever follows.
                let tags = if b.is_empty() { vec![] } else { vec![(0usize, "sync".to_string(), TagValue::U64(0))] };
                case(rep, "Il2pDeframer", d.clone(), one_in_p(b.clone(), tags, |r| {
                    let (blk, o) = Il2pDeframer::new(r);
                    (bx(blk), o)
                }));
            }
            if only.is_none() {
                // IL2P with complete headers: structured 120-bit patterns.
                let mut hs: Vec<Vec<u8>> = vec![vec![0; 121], vec![1; 121], (0..121).map(|i| (i % 2) as u8).collect()];
                for i in 0..120 {
                    let mut h = vec![0u8; 121];
                    h[i + 1] = 1;
                    hs.push(h.clone());
                    let mut h = vec![1u8; 121];
                    h[i + 1] = 0;
                    hs.push(h);
                }
                for h in hs {
                    let mut bits = h.clone();
                    bits.extend([1, 0, 1]);
                    let s: String = bits.iter().map(|x| char::from(b'0' + x)).collect();
                    case(rep, "Il2pDeframer", json!({"bits": s, "sync_at": 0}), one_in_p(bits, vec![(0, "sync".into(), TagValue::U64(0)), (50, "sync".into(), TagValue::U64(0))], |r| {
                        let (blk, o) = Il2pDeframer::new(r);
                        (bx(blk), o)
                    }));
                }
            }
        }
        "bytes" => {
            // Blocks whose input is raw bytes (any value is legal): every
            // sequence up to 4 (5) over the extremes and the mid-scale codes.
            let alpha = [0u8, 1, 126, 127, 128, 254, 255];
            let mut all = seqs(&alpha, if thorough { 5 } else { 4 });
            if let Some(o) = only {
                all = vec![o["bytes"].as_array().unwrap().iter().map(|x| x.as_u64().unwrap() as u8).collect()];
            }
            for b in all {
                let d = json!({"bytes": b});
                case(rep, "RtlSdrDecode", d.clone(), one_in(b.clone(), vec![], |r| {
                    let (blk, o) = RtlSdrDecode::new(r);
                    (bx(blk), o)
                }));
            }
        }
        "floats" => {
            let alpha = [f32::NAN, f32::INFINITY, f32::NEG_INFINITY, 0.0, -0.0, f32::MIN_POSITIVE / 2.0, f32::MAX, f32::MIN, 1.0];
            let mut all = seqs(&alpha, if thorough { 4 } else { 3 });
            if let Some(o) = only {
                all = vec![o["floats"].as_array().unwrap().iter().map(unfl).collect()];
            }
            for f in all {
                let d = json!({"floats": f.iter().map(|x| fl(*x)).collect::<Vec<_>>()});
                // Pad so that windowed blocks get going.
                let mut long = f.clone();
                long.extend([0.5f32, -0.5, 0.25, -0.25, 0.5, -0.5, 0.25, -0.25, 1.0, -1.0]);
                case(rep, "BinarySlicer", d.clone(), one_in(f.clone(), vec![], |r| {
                    let (b, o) = BinarySlicer::new(r);
                    (bx(b), o)
                }));
                case(rep, "SinglePoleIirFilter", d.clone(), one_in(f.clone(), vec![], |r| {
                    let (b, o) = SinglePoleIirFilter::new(r, 0.3f32).unwrap();
                    (bx(b), o)
                }));
                case(rep, "FirFilter", d.clone(), one_in(long.clone(), vec![], |r| {
                    let (b, o) = FirFilterBuilder::new(&[0.5f32, -0.25, 0.125]).deci(2).build(r);
                    (bx(b), o)
                }));
                case(rep, "Hilbert", d.clone(), one_in(long.clone(), vec![], |r| {
                    let (b, o) = Hilbert::new(r, 5, &rustradio::window::WindowType::Hamming);
                    (bx(b), o)
                }));
                case(rep, "ZeroCrossing", d.clone(), one_in(long.clone(), vec![], |r| {
                    let (b, o) = ZeroCrossing::new(r, 2.5, 0.5);
                    (bx(b), o)
                }));
                case(rep, "SymbolSync", d.clone(), one_in(long.clone(), vec![], |r| {
                    let filt = rustradio::iir_filter::IirFilter::new(&[0.5, 0.5]);
                    let (b, o) = SymbolSync::new(r, 2.5, 0.5, Box::new(rustradio::symbol_sync::TedZeroCrossing::new()), Box::new(filt));
                    (bx(b), o)
                }));
                case(rep, "AuEncode", d.clone(), one_in(f.clone(), vec![], |r| {
                    let (b, o) = AuEncode::new(r, rustradio::au::Encoding::Pcm16, 8000, 1);
                    (bx(b), o)
                }));
                let cx: Vec<Complex> = f.windows(2).map(|w| Complex::new(w[0], w[1])).collect();
                case(rep, "QuadratureDemod", d.clone(), one_in(cx.clone(), vec![], |r| {
                    let (b, o) = QuadratureDemod::new(r, 1.0);
                    (bx(b), o)
                }));
                case(rep, "FastFM", d.clone(), one_in(cx.clone(), vec![], |r| {
                    let (b, o) = FastFM::new(r);
                    (bx(b), o)
                }));
                case(rep, "ComplexToMag2", d.clone(), one_in(cx.clone(), vec![], |r| {
                    let (b, o) = ComplexToMag2::new(r);
                    (bx(b), o)
                }));
                case(rep, "FftFilter", d.clone(), one_in(cx.iter().cycle().take(cx.len().max(1) * 3 + 6).copied().collect::<Vec<_>>(), vec![], |r| {
                    let (b, o) = FftFilter::new(r, &[Complex::new(0.5, 0.0), Complex::new(0.25, 0.0), Complex::new(0.1, 0.2)]);
                    (bx(b), o)
                }));
            }
        }
        "packets" => {
            // StreamToPdu: every placement of a start and an end marker on an
            // 8-sample stream (also end before start, and on one sample), for
            // small max_size and tail values. VecToStream: packets of every
            // length 0..8.
            let n = 8usize;
            for s in 0..=n {
                for e in 0..=n {
                    for max in [0usize, 1, 2, 8] {
                        for tail in [0usize, 1, 2] {
                            let mut tags = vec![];
                            if s < n {
                                tags.push((s, "burst".to_string(), TagValue::Bool(true)));
                            }
                            if e < n {
                                tags.push((e, "burst".to_string(), TagValue::Bool(false)));
                            }
                            let d = json!({"start": s, "end": e, "max": max, "tail": tail});
                            if let Some(o) = only {
                                if *o != d {
                                    continue;
                                }
                            }
                            case(rep, "StreamToPdu", d, one_in_p((0..n as u8).collect::<Vec<u8>>(), tags, |r| {
                                let (b, o) = StreamToPdu::new(r, "burst", max, tail);
                                (bx(b), o)
                            }));
                        }
                    }
                }
            }
            if only.is_none() {
                for l in 0..=8usize {
                    let pk: Vec<Vec<u8>> = vec![vec![7; l], vec![], vec![1; l]];
                    let st = Start::plain();
                    verif::clear_stream_specs();
                    let (ip, r) = pin(pk);
                    let (b, o) = VecToStream::new(r);
                    case(rep, "VecToStream", json!({"packet_len": l}), run_inst(Instance {
                        block: bx(b),
                        ins: vec![ip],
                        outs: vec![sout(&st, o)],
                    }));
                }
            }
        }
        "au" => {
            let offsets: Vec<u32> = (0..=40).chain([1 << 31, u32::MAX, 4096, 5000]).collect();
            for off in offsets {
                for size in [0u32, 1, 0xffff_ffff] {
                    for enc in 0..=8u32 {
                        for rate in [8000u32, 44100] {
                            for ch in [0u32, 1, 2] {
                                let full = au_header(off, size, enc, rate, ch);
                                let cuts: Vec<usize> = if enc == 3 && rate == 8000 && ch == 1 && size == 0 {
                                    (0..=full.len()).collect()
                                } else {
                                    vec![full.len()]
                                };
                                for cut in cuts {
                                    let d = json!({"offset": off, "size": size, "enc": enc, "rate": rate, "ch": ch, "cut": cut});
                                    if let Some(o) = only {
                                        if *o != d {
                                            continue;
                                        }
                                    }
                                    case(rep, "AuDecode", d, one_in(full[..cut].to_vec(), vec![], |r| {
                                        let (b, o) = AuDecode::new(r, 8000);
                                        (bx(b), o)
                                    }));
                                }
                            }
                        }
                    }
                }
            }
            if only.is_none() {
                // Wrong magic.
                let mut h = au_header(28, 0, 3, 8000, 1);
                h[0] = 0;
                case(rep, "AuDecode", json!({"magic": "bad"}), one_in(h, vec![], |r| {
                    let (b, o) = AuDecode::new(r, 8000);
                    (bx(b), o)
                }));
            }
        }
        "parse" => {
            for len in 0..=17usize {
                let data: Vec<u8> = (0..len as u8).collect();
                let d = json!({"len": len});
                if let Some(o) = only {
                    if o["len"] != d["len"] {
                        continue;
                    }
                }
                macro_rules! p {
                    ($t:ty, $name:expr) => {{
                        let r = catch(|| <$t as Sample>::parse(&data).is_ok());
                        let ok_len = <$t as Sample>::size();
                        let res = match r {
                            Err(p) => Err(("panic".to_string(), p)),
                            Ok(true) if len != ok_len => Err(("accepted-wrong-length".to_string(), format!("parse() accepted {len} bytes, size() is {ok_len}"))),
                            Ok(false) if len == ok_len => Err(("rejected-right-length".to_string(), format!("parse() rejected {len} bytes"))),
                            _ => Ok(()),
                        };
                        case(rep, $name, d.clone(), res);
                    }};
                }
                p!(u8, "Sample::parse<u8>");
                p!(u32, "Sample::parse<u32>");
                p!(i32, "Sample::parse<i32>");
                p!(Float, "Sample::parse<f32>");
                p!(Complex, "Sample::parse<Complex>");
            }
        }
        "sigmf" => sigmf_family(rep, thorough, only),
        _ => panic!("unknown family {fam}"),
    }
}

pub const FAMILIES: [&str; 8] = ["bursts", "bits", "bytes", "floats", "packets", "au", "parse", "sigmf"];

fn tmpdir() -> std::path::PathBuf {
    let d = std::env::temp_dir().join(format!("verif-crashx-{}", std::process::id()));
    std::fs::create_dir_all(&d).unwrap();
    d
}

/// Build a tar archive from (name, content, entry type byte).
pub fn make_tar(members: &[(&str, &[u8], u8)]) -> Vec<u8> {
    let mut b = tar::Builder::new(Vec::new());
    for (name, data, typ) in members {
        let mut h = tar::Header::new_gnu();
        h.set_size(data.len() as u64);
        h.set_mode(0o644);
        h.set_entry_type(tar::EntryType::new(*typ));
        h.set_cksum();
        b.append_data(&mut h, name, *data).unwrap();
    }
    b.into_inner().unwrap()
}

/// Like make_tar, with a size field that may lie (the checksum is correct).
pub fn make_tar_claiming(members: &[(&str, &[u8], Option<u64>)]) -> Vec<u8> {
    let mut b = tar::Builder::new(Vec::new());
    for (name, data, claim) in members {
        let mut h = tar::Header::new_gnu();
        h.set_size(claim.unwrap_or(data.len() as u64));
        h.set_mode(0o644);
        h.set_entry_type(tar::EntryType::Regular);
        h.set_path(name).unwrap();
        h.set_cksum();
        b.append(&h, *data).unwrap();
    }
    b.into_inner().unwrap()
}

/// Open a SigMF source on `path` and run it to the end.
fn run_sigmf(path: &std::path::Path) -> Result<(), (String, String)> {
    let st = Start::plain();
    verif::clear_stream_specs();
    let p = path.to_path_buf();
    let r = catch(move || SigMFSourceBuilder::<i32>::new(p).build());
    match r {
        Err(p) => Err(("panic".into(), format!("opening panicked: {p}"))),
        Ok(Err(_)) => Ok(()),
        Ok(Ok((b, o))) => run_inst(Instance {
            block: bx(b),
            ins: vec![],
            outs: vec![sout(&st, o)],
        }),
    }
}

fn sigmf_family(rep: &mut Report, thorough: bool, only: Option<&Value>) {
    let dir = tmpdir();
    let mut case = |rep: &mut Report, desc: Value, r: Result<(), (String, String)>| {
        rep.evaluations += 1;
        rep.distinct_nontrivial += 1;
        if let Err((kind, msg)) = r {
            rep.violation(
                format!("C15/SigMFSource/{kind}"),
                format!("SigMFSource on {desc}: {msg}"),
                json!({"engine": "crashx", "family": "sigmf", "case": desc}),
            );
        }
    };
    let good_meta = r#"{"global":{"core:datatype":"ri32_le","core:version":"1.1.0","core:sample_rate":48000},"captures":[{"core:sample_start":0}],"annotations":[{"core:sample_start":0,"core:sample_count":2}]}"#;
    let data: Vec<u8> = (0..24u8).collect();
    // 1. Metadata mutations on a recording pair.
    let mut metas: Vec<(String, String)> = vec![("good".into(), good_meta.into())];
    let gv: Value = serde_json::from_str(good_meta).unwrap();
    for top in ["global", "captures", "annotations"] {
        let mut v = gv.clone();
        v.as_object_mut().unwrap().remove(top);
        metas.push((format!("remove {top}"), v.to_string()));
        for (what, val) in [("null", json!(null)), ("number", json!(7)), ("string", json!("x")), ("array", json!([])), ("object", json!({}))] {
            let mut v = gv.clone();
            v[top] = val;
            metas.push((format!("{top} = {what}"), v.to_string()));
        }
    }
    for key in ["core:datatype", "core:version", "core:sample_rate"] {
        let mut v = gv.clone();
        v["global"].as_object_mut().unwrap().remove(key);
        metas.push((format!("remove global.{key}"), v.to_string()));
        for (what, val) in [("null", json!(null)), ("huge", json!(1e308)), ("negative", json!(-1)), ("string", json!("cf32_le")), ("empty", json!("")), ("bool", json!(true))] {
            let mut v = gv.clone();
            v["global"][key] = val;
            metas.push((format!("global.{key} = {what}"), v.to_string()));
        }
    }
    // Datatype strings: short, truncated, not ASCII.
    for dt in ["c", "le", "ri", "ri32", "ri32_", "_le", "cf3\u{20ac}2", "r\u{e9}le", "\u{1f4e1}", "ri32_le ", "RI32_LE", "ri32_be", "ru8", "ci16_le"] {
        let mut v = gv.clone();
        v["global"]["core:datatype"] = json!(dt);
        metas.push((format!("datatype {dt:?}"), v.to_string()));
    }
    for (what, val) in [("huge", json!(18446744073709551615u64)), ("negative", json!(-5)), ("float", json!(1.5)), ("string", json!("0"))] {
        let mut v = gv.clone();
        v["captures"][0]["core:sample_start"] = val.clone();
        metas.push((format!("captures[0].sample_start = {what}"), v.to_string()));
        let mut v = gv.clone();
        v["annotations"][0]["core:sample_count"] = val;
        metas.push((format!("annotations[0].sample_count = {what}"), v.to_string()));
    }
    for txt in ["", "{", "[]", "null", "{\"global\":", "\u{0}\u{1}", "{\"global\":{\"core:datatype\":\"ri32_le\",\"core:version\":\"1\"},\"captures\":[]}"] {
        metas.push((format!("raw {txt:?}"), txt.to_string()));
    }
    for (name, meta) in &metas {
        for datalen in [0usize, 3, 4, 24] {
            let d = json!({"kind": "recording", "meta": name, "datalen": datalen});
            if let Some(o) = only {
                if *o != d {
                    continue;
                }
            }
            let base = dir.join("rec.sigmf");
            std::fs::write(format!("{}-meta", base.display()), meta).unwrap();
            std::fs::write(format!("{}-data", base.display()), &data[..datalen]).unwrap();
            let _ = std::fs::remove_file(&base);
            case(rep, d, run_sigmf(&base));
        }
    }
    // 2. Archives: member menus and every prefix.
    let meta_b = good_meta.as_bytes();
    let archives: Vec<(&str, Vec<u8>)> = vec![
        ("meta,data", make_tar(&[("a.sigmf-meta", meta_b, b'0'), ("a.sigmf-data", &data, b'0')])),
        ("data,meta", make_tar(&[("a.sigmf-data", &data, b'0'), ("a.sigmf-meta", meta_b, b'0')])),
        ("meta only", make_tar(&[("a.sigmf-meta", meta_b, b'0')])),
        ("data only", make_tar(&[("a.sigmf-data", &data, b'0')])),
        ("two metas", make_tar(&[("a.sigmf-meta", meta_b, b'0'), ("b.sigmf-meta", meta_b, b'0'), ("a.sigmf-data", &data, b'0')])),
        ("two datas", make_tar(&[("a.sigmf-meta", meta_b, b'0'), ("a.sigmf-data", &data, b'0'), ("a.sigmf-data", &data, b'0')])),
        ("meta is dir", make_tar(&[("a.sigmf-meta", b"", b'5'), ("a.sigmf-data", &data, b'0')])),
        ("data is symlink", make_tar(&[("a.sigmf-meta", meta_b, b'0'), ("a.sigmf-data", b"", b'2')])),
        ("data is sparse", make_tar(&[("a.sigmf-meta", meta_b, b'0'), ("a.sigmf-data", &data, b'S')])),
        ("empty data", make_tar(&[("a.sigmf-meta", meta_b, b'0'), ("a.sigmf-data", b"", b'0')])),
        ("odd data", make_tar(&[("a.sigmf-meta", meta_b, b'0'), ("a.sigmf-data", &data[..7], b'0')])),
        ("bad meta", make_tar(&[("a.sigmf-meta", b"{", b'0'), ("a.sigmf-data", &data, b'0')])),
        ("unrelated", make_tar(&[("README", b"hello", b'0'), ("a.sigmf-meta", meta_b, b'0'), ("x/y.bin", &data, b'0'), ("a.sigmf-data", &data, b'0')])),
        ("no ext", make_tar(&[("sigmf-meta", meta_b, b'0'), ("sigmf-data", &data, b'0')])),
        ("empty archive", make_tar(&[])),
    ];
    for (name, bytes) in &archives {
        let cuts: Vec<usize> = if *name == "meta,data" || *name == "unrelated" {
            let step = if thorough { 1 } else { 7 };
            (0..bytes.len().min(1536)).step_by(step).chain((1536..=bytes.len()).step_by(512)).chain([bytes.len()]).collect()
        } else {
            vec![bytes.len()]
        };
        for cut in cuts {
            let d = json!({"kind": "archive", "members": name, "cut": cut});
            if let Some(o) = only {
                if *o != d {
                    continue;
                }
            }
            let path = dir.join("arch.sigmf");
            std::fs::write(&path, &bytes[..cut]).unwrap();
            case(rep, d, run_sigmf(&path));
        }
    }
    // 3. Members whose header lies about their size (valid checksum).
    let lies: Vec<u64> = vec![
        0,
        1,
        meta_b.len() as u64 - 1,
        meta_b.len() as u64 + 1,
        meta_b.len() as u64 + 600,
        1 << 31,
        1 << 63,
        (1 << 63) + 12345,
        u64::MAX - 4096,
    ];
    for which in ["meta", "data"] {
        for lie in &lies {
            for meta_first in [true, false] {
                let d = json!({"kind": "archive-size-lie", "member": which, "claimed": lie, "meta_first": meta_first});
                if let Some(o) = only {
                    if *o != d {
                        continue;
                    }
                }
                let m = ("a.sigmf-meta", meta_b, if which == "meta" { Some(*lie) } else { None });
                let dt = ("a.sigmf-data", &data[..], if which == "data" { Some(*lie) } else { None });
                let bytes = if meta_first { make_tar_claiming(&[m, dt]) } else { make_tar_claiming(&[dt, m]) };
                let path = dir.join("lie.sigmf");
                std::fs::write(&path, &bytes).unwrap();
                case(rep, d, run_sigmf(&path));
            }
        }
    }
    let _ = std::fs::remove_dir_all(&dir);
}

pub fn run(tier: &str, shard: Option<&str>) -> Report {
    let thorough = tier == "thorough";
    let mut rep = Report::new("C15", "crashx");
    rep.rule = "inputs enumerated per family: bursts (all packets of length 0..7(8) over {-1,0,1,NaN} + extremes) for \
        Midpointer/Wpcr; bits (all bit strings up to 12(14) bits, plus structured 120-bit IL2P headers) for the bit-stream \
        blocks; floats (all sequences up to 4(5) over 9 special values) for the float/complex blocks; packets (all \
        start/end marker placements x max_size x tail) for StreamToPdu and all packet lengths for VecToStream; au (header \
        field grid x every truncation point); parse (every length 0..17 for every Sample type). Every case is distinct \
        and non-trivial."
        .into();
    rep.assumptions = vec![
        "bit-stream blocks document their input as bits: bytes other than 0 and 1 are outside the alphabet".into(),
        "a case passes if it ends in normal output, dropped data or an Err; panics, and not going quiet within the call cap, fail".into(),
    ];
    for f in FAMILIES {
        if let Some(s) = shard {
            if s != f {
                continue;
            }
        }
        run_family(&mut rep, f, thorough, None);
    }
    rep.states = rep.evaluations;
    rep.transitions = rep.evaluations;
    rep.traces_validated = rep.evaluations;
    rep.sample(json!({"family": "bursts", "block": "Midpointer", "burst": [1.0, 1.0, 1.0]}));
    rep.sample(json!({"family": "au", "offset": 7, "cut": 24}));
    rep
}
