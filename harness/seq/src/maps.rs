//! C18: streams release every mapping and descriptor; the two halves alias.
//! All create/drop sequences up to a depth, with the process's mapping and
//! descriptor counts checked after every operation.
use std::sync::Arc;

use rustradio::circular_buffer::Buffer;
use serde_json::{Value, json};
use vcommon::*;

fn count_maps() -> usize {
    std::fs::read_to_string("/proc/self/maps").map(|s| s.lines().count()).unwrap_or(0)
}
fn count_fds() -> usize {
    std::fs::read_dir("/proc/self/fd").map(|d| d.count()).unwrap_or(0)
}

#[derive(Clone, Copy, Debug, PartialEq)]
enum Op {
    Create1,
    Create2,
    CreateBad100,
    CreateBad4097,
    CreateNonDividing,
    CreateU64,
    DropOldest,
    DropNewest,
    DropNewestOnThread,
    /// The newest stream is owned by a thread that panics: it is dropped
    /// while that thread unwinds; the process goes on.
    DropNewestInPanic,
}

const OPS: [Op; 10] = [
    Op::Create1,
    Op::Create2,
    Op::CreateBad100,
    Op::CreateBad4097,
    Op::CreateNonDividing,
    Op::CreateU64,
    Op::DropOldest,
    Op::DropNewest,
    Op::DropNewestOnThread,
    Op::DropNewestInPanic,
];

enum AnyBuf {
    U8(Arc<Buffer<u8>>),
    U64(Arc<Buffer<u64>>),
}

fn run_seq(seq: &[Op]) -> Result<(), (String, String)> {
    // Baseline after warm-up (first thread spawn, first tempfile).
    let (m0, f0) = (count_maps(), count_fds());
    let mut live: Vec<AnyBuf> = vec![];
    for (i, op) in seq.iter().enumerate() {
        let r = catch(|| -> Result<Option<AnyBuf>, String> {
            Ok(match op {
                Op::Create1 => Some(AnyBuf::U8(Arc::new(Buffer::<u8>::new(PAGE).map_err(|e| format!("{e}"))?))),
                Op::Create2 => Some(AnyBuf::U8(Arc::new(Buffer::<u8>::new(2 * PAGE).map_err(|e| format!("{e}"))?))),
                Op::CreateU64 => Some(AnyBuf::U64(Arc::new(Buffer::<u64>::new(PAGE).map_err(|e| format!("{e}"))?))),
                Op::CreateBad100 => match Buffer::<u8>::new(100) {
                    Ok(_) => return Err("size 100 accepted".into()),
                    Err(_) => None,
                },
                Op::CreateBad4097 => match Buffer::<u8>::new(4097) {
                    Ok(_) => return Err("size 4097 accepted".into()),
                    Err(_) => None,
                },
                Op::CreateNonDividing => {
                    if Buffer::<[u8; 3]>::new(PAGE).is_ok() {
                        return Err("element size 3 accepted for a 4096 byte buffer".into());
                    }
                    // Divides the doubled mapping, not the buffer.
                    if Buffer::<[u8; 8192]>::new(3 * PAGE).is_ok() {
                        return Err("element size 8192 accepted for a 12288 byte buffer".into());
                    }
                    if Buffer::<[u8; 8192]>::new(PAGE).is_ok() {
                        return Err("element size 8192 accepted for a 4096 byte buffer".into());
                    }
                    None
                }
                _ => None,
            })
        });
        match r {
            Err(p) => return Err(("panic".into(), format!("op {i} ({op:?}) panicked: {p}"))),
            Ok(Err(m)) => {
                let kind = if m.contains("accepted") { "bad-setup-accepted" } else { "create-failed" };
                return Err((kind.into(), format!("op {i} ({op:?}): {m}")));
            }
            Ok(Ok(Some(b))) => live.push(b),
            Ok(Ok(None)) => {}
        }
        match op {
            Op::DropOldest if !live.is_empty() => {
                live.remove(0);
            }
            Op::DropNewest => {
                live.pop();
            }
            Op::DropNewestOnThread => {
                if let Some(b) = live.pop() {
                    std::thread::spawn(move || drop(b)).join().unwrap();
                }
            }
            Op::DropNewestInPanic => {
                if let Some(b) = live.pop() {
                    let r = std::thread::spawn(move || {
                        let _owned = b;
                        // No panic hook, no message: just the unwinding.
                        std::panic::resume_unwind(Box::new(()));
                    })
                    .join();
                    assert!(r.is_err());
                }
            }
            _ => {}
        }
        let (m, f) = (count_maps(), count_fds());
        let want_m = m0 + 2 * live.len();
        if m != want_m || f != f0 {
            return Err((
                "leak".into(),
                format!(
                    "after op {i} ({op:?}) with {} streams alive: {m} mappings (want {want_m}), {f} descriptors (want {f0})",
                    live.len()
                ),
            ));
        }
    }
    // Use every live buffer across the wrap, then drop all.
    for b in &live {
        if let AnyBuf::U8(b) = b {
            alias_check(b.clone())?;
        }
    }
    drop(live);
    let (m, f) = (count_maps(), count_fds());
    if m != m0 || f != f0 {
        return Err(("leak".into(), format!("after dropping everything: {m} mappings (baseline {m0}), {f} descriptors (baseline {f0})")));
    }
    Ok(())
}

/// Write through the upper half, read back through the lower half: every byte
/// (but the last) of the buffer.
fn alias_check(b: Arc<Buffer<u8>>) -> Result<(), (String, String)> {
    let cap = b.total_size();
    let r = catch(|| -> Result<(), String> {
        // Move to offset cap-1.
        let w = b.clone().write_buf().map_err(|e| format!("{e}"))?;
        w.produce(cap - 1, &[]);
        let (r, _) = b.clone().read_buf().map_err(|e| format!("{e}"))?;
        r.consume(cap - 1);
        // Window [cap-1, 2cap-1): all but its first byte lies in the upper half.
        let mut w = b.clone().write_buf().map_err(|e| format!("{e}"))?;
        if w.len() != cap {
            return Err(format!("write window {} of {cap}", w.len()));
        }
        for (i, x) in w.slice().iter_mut().enumerate() {
            *x = ((i * 31 + 7) % 251) as u8;
        }
        w.produce(cap, &[]);
        let (r, _) = b.clone().read_buf().map_err(|e| format!("{e}"))?;
        r.consume(1);
        // Now at offset 0: the window reads the lower half.
        let (r, _) = b.clone().read_buf().map_err(|e| format!("{e}"))?;
        if r.len() != cap - 1 {
            return Err(format!("read window {} of {}", r.len(), cap - 1));
        }
        for (i, x) in r.slice().iter().enumerate() {
            let want = (((i + 1) * 31 + 7) % 251) as u8;
            if *x != want {
                return Err(format!("byte {i} reads {x}, but {want} was written to byte {}", i + cap));
            }
        }
        r.consume(cap - 1);
        Ok(())
    });
    match r {
        Err(p) => Err(("panic".into(), format!("aliasing check panicked: {p}"))),
        Ok(Err(m)) => Err(("halves-do-not-alias".into(), m)),
        Ok(Ok(())) => Ok(()),
    }
}

fn op_name(o: Op) -> String {
    format!("{o:?}")
}

pub fn replay_json(v: &Value) -> Result<(), String> {
    if v["ops"][0].as_str().map(|s| s.starts_with("CreatePages")).unwrap_or(false) {
        let pages: usize = v["ops"][0].as_str().unwrap()["CreatePages".len()..].parse().unwrap();
        warm();
        for _ in 0..3 {
            let (m0, f0) = (count_maps(), count_fds());
            let b = Buffer::<u8>::new(pages * PAGE).map_err(|e| format!("{e}"))?;
            let m1 = count_maps();
            drop(b);
            let (m2, f2) = (count_maps(), count_fds());
            if m1 <= m0 || m2 != m0 || f2 != f0 {
                return Err(format!("[leak] {pages}-page stream: mappings {m0} -> {m1} -> {m2}, descriptors {f0} -> {f2}"));
            }
        }
        return Ok(());
    }
    let seq: Vec<Op> = v["ops"]
        .as_array()
        .unwrap()
        .iter()
        .map(|s| *OPS.iter().find(|o| op_name(**o) == s.as_str().unwrap()).unwrap())
        .collect();
    warm();
    run_seq(&seq).map_err(|(k, m)| format!("[{k}] {m}"))
}

fn warm() {
    std::thread::spawn(|| {}).join().unwrap();
    let _ = Buffer::<u8>::new(PAGE);
    let _ = count_maps();
    let _ = count_fds();
    let _ = std::thread::spawn(|| drop(Buffer::<u8>::new(PAGE))).join();
    // First unwinding loads the unwinder's tables (mappings of its own).
    let _ = std::thread::spawn(|| std::panic::resume_unwind(Box::new(()))).join();
}

pub fn run(tier: &str, shard: Option<&str>) -> Report {
    let depth = if tier == "thorough" { 6 } else { 5 };
    let mut rep = Report::new("C18", "maps");
    rep.rule = "all sequences up to the depth over {create 1 page, create 2 pages, create u64 stream, create with size 100, \
        with size 4097, with element size 3, drop oldest, drop newest, drop newest on another thread, drop newest on a thread that is unwinding from a panic}; after every operation \
        the number of lines in /proc/self/maps and entries in /proc/self/fd must equal baseline + 2 per live stream, + 0; \
        surviving streams are written through the upper half and read back through the lower half, every byte; a sequence is \
        non-trivial if it creates at least one stream"
        .into();
    let (si, sn) = match shard {
        Some(s) => {
            let (a, b) = s.split_once('/').unwrap();
            (a.parse::<usize>().unwrap(), b.parse::<usize>().unwrap())
        }
        None => (0, 1),
    };
    warm();
    let mut layer: Vec<Vec<Op>> = vec![vec![]];
    let mut k = 0usize;
    for _ in 0..depth {
        let mut next = vec![];
        for s in &layer {
            for o in OPS {
                // Drops on nothing are no-ops: prune to keep the space small.
                let live = s.iter().fold(0i32, |a, o| match o {
                    Op::Create1 | Op::Create2 | Op::CreateU64 => a + 1,
                    Op::DropOldest | Op::DropNewest | Op::DropNewestOnThread | Op::DropNewestInPanic => (a - 1).max(0),
                    _ => a,
                });
                if live == 0 && matches!(o, Op::DropOldest | Op::DropNewest | Op::DropNewestOnThread | Op::DropNewestInPanic) {
                    continue;
                }
                let mut t = s.clone();
                t.push(o);
                next.push(t);
            }
        }
        for t in &next {
            k += 1;
            if k % sn != si {
                continue;
            }
            rep.evaluations += 1;
            rep.transitions += t.len() as u64;
            if t.iter().any(|o| matches!(o, Op::Create1 | Op::Create2 | Op::CreateU64)) {
                rep.distinct_nontrivial += 1;
            }
            if let Err((kind, msg)) = run_seq(t) {
                rep.violation(
                    format!("C18/Buffer/{kind}"),
                    format!("{t:?}: {msg}"),
                    json!({"engine": "maps", "ops": t.iter().map(|o| op_name(*o)).collect::<Vec<_>>()}),
                );
            }
            if rep.samples.len() < 3 && t.len() == depth && k % 1013 == 0 {
                rep.sample(json!(t.iter().map(|o| op_name(*o)).collect::<Vec<_>>()));
            }
        }
        layer = next;
    }
    // Sizes: one create/drop per size, in two orders, around the sizes at
    // which a mapping strategy may change (huge-page multiples).
    if si == 0 {
        let sizes_pages = [1usize, 2, 3, 7, 16, 511, 512, 513, 1000, 1024, 1536, 2048];
        for round in 0..3 {
            for pages in sizes_pages {
                let (m0, f0) = (count_maps(), count_fds());
                rep.evaluations += 1;
                rep.distinct_nontrivial += 1;
                let case = json!({"engine": "maps", "ops": [format!("CreatePages{pages}"), "DropNewest"], "round": round});
                let b = match catch(|| Buffer::<u8>::new(pages * PAGE)) {
                    Ok(Ok(b)) => b,
                    Ok(Err(e)) => {
                        rep.violation("C18/Buffer/create-failed".to_string(), format!("{pages} pages: {e}"), case);
                        continue;
                    }
                    Err(p) => {
                        rep.violation("C18/Buffer/panic".to_string(), format!("{pages} pages: {p}"), case);
                        continue;
                    }
                };
                let (m1, f1) = (count_maps(), count_fds());
                drop(b);
                let (m2, f2) = (count_maps(), count_fds());
                // (The kernel may merge or split neighbouring mappings of the
                // same file: while alive only "at least one more" is required.)
                if m1 <= m0 || f1 != f0 || m2 != m0 || f2 != f0 {
                    rep.violation(
                        "C18/Buffer/leak".to_string(),
                        format!("{pages}-page stream (round {round}): mappings {m0} -> {m1} -> {m2} after drop, descriptors {f0} -> {f1} -> {f2}"),
                        case,
                    );
                }
            }
        }
    }
    rep.states = rep.evaluations;
    rep.traces_validated = rep.evaluations;
    if rep.samples.is_empty() {
        rep.sample(json!(["Create1", "Create2", "DropOldest", "CreateBad100", "DropNewestOnThread"]));
    }
    rep
}
