//! E3: exhaustive environment-answer search for one block.
//!
//! The harness is the block's whole environment: it owns the write end of
//! every input and the read end of every output. One step is one environment
//! action followed by one `work()` call. All action sequences up to a horizon
//! are enumerated (by re-execution: blocks can't be cloned), each followed by a
//! deterministic flush tail so that every execution runs to completion.
use rustradio::block::{Block, BlockRet};
use rustradio::stream::{
    NCReadStream, NCWriteStream, ReadStream, Tag, TagValue, WriteStream, new_nocopy_stream,
    new_stream,
};
use rustradio::verif::{self, StreamSpec};
use serde_json::{Value, json};
use vcommon::*;

/// Bit-exact representation of a sample, for comparison.
pub trait Bits: Copy + Send + 'static {
    fn bits(&self) -> u64;
}
impl Bits for u8 {
    fn bits(&self) -> u64 {
        *self as u64
    }
}
impl Bits for u32 {
    fn bits(&self) -> u64 {
        *self as u64
    }
}
impl Bits for i32 {
    fn bits(&self) -> u64 {
        *self as u32 as u64
    }
}
impl Bits for f32 {
    fn bits(&self) -> u64 {
        self.to_bits() as u64
    }
}
impl Bits for rustradio::Complex {
    fn bits(&self) -> u64 {
        ((self.re.to_bits() as u64) << 32) | self.im.to_bits() as u64
    }
}
impl Bits for Big4096 {
    fn bits(&self) -> u64 {
        if self.intact() { self.v } else { u64::MAX }
    }
}
impl Bits for Big2048 {
    fn bits(&self) -> u64 {
        if self.intact() { self.v } else { u64::MAX }
    }
}
impl Bits for Big1024 {
    fn bits(&self) -> u64 {
        if self.intact() { self.v } else { u64::MAX }
    }
}

/// A tag on an absolute stream index.
pub type ATag = (usize, String, String);

pub fn atag(idx: usize, t: &Tag) -> ATag {
    (idx, t.key().to_string(), format!("{:?}", t.val()))
}

/// Everything a port produced so far.
#[derive(Clone, Debug, Default, PartialEq)]
pub struct OutRec {
    pub samples: Vec<u64>,
    pub tags: Vec<ATag>,
    /// For packet outputs: the packets (as bit patterns).
    pub packets: Vec<Vec<u64>>,
    /// A tag was reported at a position outside the window, on the wrong
    /// sample, or changed after delivery.
    pub bad_tag_pos: Option<String>,
    /// The stream itself misbehaved (delivered samples disappeared).
    pub bad_window: Option<String>,
}

/// Where the stream starts: ring offset and how many slots are free on
/// outputs.
#[derive(Clone, Copy, Debug, PartialEq)]
pub struct Start {
    pub in_offset: usize,
    pub out_offset: usize,
    /// Junk samples already sitting in every output stream.
    pub out_prefill: usize,
    pub pages: usize,
}

impl Start {
    pub fn plain() -> Self {
        Self {
            in_offset: 0,
            out_offset: 0,
            out_prefill: 0,
            pages: 1,
        }
    }
    pub fn to_json(&self) -> Value {
        json!({"in_offset": self.in_offset, "out_offset": self.out_offset, "out_prefill": self.out_prefill, "pages": self.pages})
    }
    pub fn from_json(v: &Value) -> Self {
        let us = |k: &str| v[k].as_u64().unwrap() as usize;
        Self {
            in_offset: us("in_offset"),
            out_offset: us("out_offset"),
            out_prefill: us("out_prefill"),
            pages: us("pages"),
        }
    }
}

pub trait InPort {
    fn feed(&mut self, n: usize) -> usize;
    fn remaining(&self) -> usize;
    fn fed(&self) -> usize;
    fn free(&self) -> usize;
    /// Samples sitting in the stream, not yet consumed by the block.
    fn backlog(&self) -> usize;
    fn capacity(&self) -> usize;
    fn id(&self) -> usize;
    fn close(&mut self);
    fn closed(&self) -> bool;
    fn is_packet(&self) -> bool {
        false
    }
}

pub trait OutPort {
    /// Pull newly visible output into the record.
    fn observe(&mut self);
    fn release(&mut self, n: usize);
    fn held(&self) -> usize;
    fn free(&self) -> usize;
    fn capacity(&self) -> usize;
    fn id(&self) -> usize;
    fn rec(&self) -> &OutRec;
    fn close(&mut self);
    fn is_packet(&self) -> bool {
        false
    }
}

/// Sample input port: the harness holds the write end.
pub struct SIn<T: Copy> {
    w: Option<WriteStream<T>>,
    probe: rustradio::stream::StreamProbe<T>,
    data: Vec<T>,
    tags: Vec<(usize, String, TagValue)>,
    pos: usize,
    id: usize,
    cap: usize,
}

/// Create an input stream per the start state. Returns (port, read end).
pub fn sin<T: Copy + 'static>(
    st: &Start,
    data: Vec<T>,
    tags: Vec<(usize, String, TagValue)>,
) -> (Box<SIn<T>>, ReadStream<T>) {
    verif::push_stream_spec(StreamSpec {
        size: st.pages * PAGE,
        offset: st.in_offset,
        prefill: 0,
    });
    let (w, r) = new_stream::<T>();
    let id = w.verif_buffer_id();
    let cap = st.pages * PAGE / std::mem::size_of::<T>();
    let probe = w.verif_probe();
    (
        Box::new(SIn {
            probe,
            w: Some(w),
            data,
            tags,
            pos: 0,
            id,
            cap,
        }),
        r,
    )
}

impl<T: Copy> InPort for SIn<T> {
    fn feed(&mut self, n: usize) -> usize {
        let Some(w) = self.w.as_ref() else { return 0 };
        let mut wb = w.write_buf().unwrap();
        let n = n.min(self.data.len() - self.pos).min(wb.len());
        if n == 0 {
            return 0;
        }
        wb.slice()[..n].copy_from_slice(&self.data[self.pos..self.pos + n]);
        let tags: Vec<Tag> = self
            .tags
            .iter()
            .filter(|(i, _, _)| *i >= self.pos && *i < self.pos + n)
            .map(|(i, k, v)| Tag::new(*i - self.pos, k.clone(), v.clone()))
            .collect();
        wb.produce(n, &tags);
        self.pos += n;
        n
    }
    fn remaining(&self) -> usize {
        self.data.len() - self.pos
    }
    fn fed(&self) -> usize {
        self.pos
    }
    fn free(&self) -> usize {
        self.w.as_ref().map(|w| w.free()).unwrap_or(0)
    }
    fn backlog(&self) -> usize {
        // Also after the write end is gone: what was committed stays.
        self.probe.dump().map(|d| d.used).unwrap_or(0)
    }
    fn capacity(&self) -> usize {
        self.cap
    }
    fn id(&self) -> usize {
        self.id
    }
    fn close(&mut self) {
        self.w = None;
    }
    fn closed(&self) -> bool {
        self.w.is_none()
    }
}

/// Packet input port.
pub struct PIn<T> {
    w: Option<NCWriteStream<Vec<T>>>,
    probe: rustradio::stream::NCStreamProbe<Vec<T>>,
    data: Vec<Vec<T>>,
    pos: usize,
    id: usize,
}

pub fn pin<T: 'static>(data: Vec<Vec<T>>) -> (Box<PIn<T>>, NCReadStream<Vec<T>>) {
    use rustradio::stream::StreamWait;
    let (w, r) = new_nocopy_stream::<Vec<T>>();
    let id = w.verif_id();
    let probe = w.verif_nc_probe();
    (
        Box::new(PIn {
            w: Some(w),
            probe,
            data,
            pos: 0,
            id,
        }),
        r,
    )
}

impl<T: Clone> InPort for PIn<T> {
    fn feed(&mut self, n: usize) -> usize {
        let Some(w) = self.w.as_ref() else { return 0 };
        let n = n.min(self.data.len() - self.pos);
        for i in 0..n {
            w.push(self.data[self.pos + i].clone(), &[]);
        }
        self.pos += n;
        n
    }
    fn remaining(&self) -> usize {
        self.data.len() - self.pos
    }
    fn fed(&self) -> usize {
        self.pos
    }
    fn free(&self) -> usize {
        usize::MAX / 2
    }
    fn backlog(&self) -> usize {
        // Also after the write end is gone: what was pushed stays queued.
        self.probe.len().unwrap_or(0)
    }
    fn capacity(&self) -> usize {
        usize::MAX / 2
    }
    fn id(&self) -> usize {
        self.id
    }
    fn close(&mut self) {
        self.w = None;
    }
    fn closed(&self) -> bool {
        self.w.is_none()
    }
    fn is_packet(&self) -> bool {
        true
    }
}

/// Sample output port: the harness holds the read end.
pub struct SOut<T: Copy> {
    r: Option<ReadStream<T>>,
    /// Samples at the front of the stream that are junk (pre-existing).
    junk: usize,
    /// Recorded samples still sitting in the stream (after the junk).
    held: usize,
    /// Absolute index of the first held sample.
    released: usize,
    rec: OutRec,
    id: usize,
    cap: usize,
}

/// Wrap the read end returned by a block constructor.
pub fn sout<T: Copy + Bits>(st: &Start, r: ReadStream<T>) -> Box<SOut<T>> {
    let id = r.verif_buffer_id();
    let cap = r.total_size();
    Box::new(SOut {
        r: Some(r),
        junk: st.out_prefill.min(cap),
        held: 0,
        released: 0,
        rec: OutRec::default(),
        id,
        cap,
    })
}

impl<T: Copy + Bits> OutPort for SOut<T> {
    fn observe(&mut self) {
        let Some(r) = self.r.as_ref() else { return };
        let (rb, tags) = r.read_buf().unwrap();
        let have = rb.len();
        let start = self.junk + self.held;
        if have < start {
            self.rec.bad_window = Some(format!(
                "output stream shrank: {have} visible, {start} expected at least"
            ));
            return;
        }
        for s in &rb.slice()[start..] {
            self.rec.samples.push(s.bits());
        }
        // Tags now shown on samples that were already delivered (or on the
        // pre-existing junk) must be exactly the ones shown when the sample
        // first appeared.
        let mut old_now: Vec<ATag> = Vec::new();
        for t in &tags {
            if t.pos() >= have {
                self.rec.bad_tag_pos = Some(format!(
                    "tag {:?} at position {} in a window of {have}",
                    t.key(),
                    t.pos()
                ));
            } else if t.pos() >= start {
                self.rec.tags.push(atag(self.released + t.pos() - self.junk, t));
            } else if t.pos() < self.junk {
                self.rec.bad_tag_pos = Some(format!(
                    "tag {:?} appeared on a sample that was already in the stream before the block ran (window position {})",
                    t.key(),
                    t.pos()
                ));
            } else {
                old_now.push(atag(self.released + t.pos() - self.junk, t));
            }
        }
        let mut old_then: Vec<ATag> = self
            .rec
            .tags
            .iter()
            .filter(|t| t.0 >= self.released && t.0 < self.released + self.held)
            .cloned()
            .collect();
        old_now.sort();
        old_then.sort();
        if old_now != old_then && self.rec.bad_tag_pos.is_none() {
            self.rec.bad_tag_pos = Some(format!(
                "tags on already delivered samples changed: now {old_now:?}, when first delivered {old_then:?}"
            ));
        }
        self.held = have - self.junk;
    }
    fn release(&mut self, n: usize) {
        let Some(r) = self.r.as_ref() else { return };
        let n = n.min(self.junk + self.held);
        if n == 0 {
            return;
        }
        let (rb, _) = r.read_buf().unwrap();
        rb.consume(n);
        let j = n.min(self.junk);
        self.junk -= j;
        let rest = n - j;
        self.held -= rest;
        self.released += rest;
    }
    fn held(&self) -> usize {
        self.junk + self.held
    }
    fn free(&self) -> usize {
        self.cap - self.junk - self.held
    }
    fn capacity(&self) -> usize {
        self.cap
    }
    fn id(&self) -> usize {
        self.id
    }
    fn rec(&self) -> &OutRec {
        &self.rec
    }
    fn close(&mut self) {
        self.r = None;
    }
}

/// Packet output port.
pub struct POut<T> {
    r: Option<NCReadStream<Vec<T>>>,
    rec: OutRec,
    id: usize,
}

pub fn pout<T: Bits>(r: NCReadStream<Vec<T>>) -> Box<POut<T>> {
    use rustradio::stream::StreamWait;
    let id = r.verif_id();
    Box::new(POut {
        r: Some(r),
        rec: OutRec::default(),
        id,
    })
}

impl<T: Bits> OutPort for POut<T> {
    fn observe(&mut self) {
        let Some(r) = self.r.as_ref() else { return };
        while let Some((v, _)) = r.pop() {
            self.rec.packets.push(v.iter().map(|x| x.bits()).collect());
        }
    }
    fn release(&mut self, _n: usize) {}
    fn held(&self) -> usize {
        0
    }
    fn free(&self) -> usize {
        usize::MAX / 2
    }
    fn capacity(&self) -> usize {
        usize::MAX / 2
    }
    fn id(&self) -> usize {
        self.id
    }
    fn rec(&self) -> &OutRec {
        &self.rec
    }
    fn close(&mut self) {
        self.r = None;
    }
    fn is_packet(&self) -> bool {
        true
    }
}

/// Packet output of any payload type, recorded through a conversion.
pub struct POutF<T> {
    r: Option<NCReadStream<T>>,
    rec: OutRec,
    id: usize,
    conv: fn(&T) -> Vec<u64>,
}

pub fn pout_with<T>(r: NCReadStream<T>, conv: fn(&T) -> Vec<u64>) -> Box<POutF<T>> {
    use rustradio::stream::StreamWait;
    let id = r.verif_id();
    Box::new(POutF {
        r: Some(r),
        rec: OutRec::default(),
        id,
        conv,
    })
}

impl<T> OutPort for POutF<T> {
    fn observe(&mut self) {
        let Some(r) = self.r.as_ref() else { return };
        while let Some((v, _)) = r.pop() {
            self.rec.packets.push((self.conv)(&v));
        }
    }
    fn release(&mut self, _n: usize) {}
    fn held(&self) -> usize {
        0
    }
    fn free(&self) -> usize {
        usize::MAX / 2
    }
    fn capacity(&self) -> usize {
        usize::MAX / 2
    }
    fn id(&self) -> usize {
        self.id
    }
    fn rec(&self) -> &OutRec {
        &self.rec
    }
    fn close(&mut self) {
        self.r = None;
    }
    fn is_packet(&self) -> bool {
        true
    }
}

/// Queue the output stream spec(s) that the block constructor will consume.
pub fn plan_out(st: &Start, n: usize) {
    for _ in 0..n {
        verif::push_stream_spec(StreamSpec {
            size: st.pages * PAGE,
            offset: st.out_offset,
            prefill: st.out_prefill,
        });
    }
}

/// A block with all its ports.
pub struct Instance {
    pub block: Box<dyn Block>,
    pub ins: Vec<Box<dyn InPort>>,
    pub outs: Vec<Box<dyn OutPort>>,
}

#[derive(Clone, Debug, PartialEq)]
pub enum Verdict {
    Again,
    Pending,
    WaitStream { id: usize, need: usize, closed: bool },
    WaitFunc,
    Eof,
    Err(String),
    Panic(String),
}

impl Verdict {
    pub fn short(&self) -> String {
        match self {
            Verdict::Again => "Again".into(),
            Verdict::Pending => "Pending".into(),
            Verdict::WaitStream { need, .. } => format!("Wait({need})"),
            Verdict::WaitFunc => "WaitFunc".into(),
            Verdict::Eof => "EOF".into(),
            Verdict::Err(e) => format!("Err({e})"),
            Verdict::Panic(e) => format!("Panic({e})"),
        }
    }
}

impl Instance {
    pub fn work(&mut self) -> Verdict {
        let b = &mut self.block;
        let r = catch(|| match b.work() {
            Ok(BlockRet::Again) => Verdict::Again,
            Ok(BlockRet::Pending) => Verdict::Pending,
            Ok(BlockRet::WaitForStream(s, need)) => Verdict::WaitStream {
                id: s.verif_id(),
                need,
                closed: s.closed(),
            },
            Ok(BlockRet::WaitForFunc(_)) => Verdict::WaitFunc,
            Ok(BlockRet::EOF) => Verdict::Eof,
            Err(e) => Verdict::Err(format!("{e}")),
        });
        match r {
            Ok(v) => v,
            Err(p) => Verdict::Panic(p),
        }
    }
    pub fn observe(&mut self) {
        for o in &mut self.outs {
            o.observe();
        }
    }
    pub fn records(&self) -> Vec<OutRec> {
        self.outs.iter().map(|o| o.rec().clone()).collect()
    }
}

/// One environment action.
#[derive(Clone, Copy, Debug, PartialEq, Eq)]
pub enum Act {
    Feed(usize, usize),
    /// Feed every input this many.
    FeedAll(usize),
    Release(usize, usize),
    CloseIn(usize),
    Nop,
    /// Give the stream named by the previous verdict exactly what it asked
    /// for, and nothing else.
    Satisfy,
    /// Flush tail step: everything fed, released, closed as far as possible.
    Flush,
    /// Deliver everything that is left to every input and close them all:
    /// the upstream blocks have finished. What follows explores the end of
    /// stream with the output side still trickling.
    Finish,
}

impl Act {
    pub fn to_json(self) -> Value {
        match self {
            Act::Feed(i, n) => json!({"feed": [i, n]}),
            Act::FeedAll(n) => json!({"feed_all": n}),
            Act::Release(j, n) => json!({"release": [j, n]}),
            Act::CloseIn(i) => json!({"close_in": i}),
            Act::Nop => json!("nop"),
            Act::Satisfy => json!("satisfy"),
            Act::Flush => json!("flush"),
            Act::Finish => json!("finish"),
        }
    }
    pub fn from_json(v: &Value) -> Self {
        if let Some(s) = v.as_str() {
            return match s {
                "satisfy" => Act::Satisfy,
                "flush" => Act::Flush,
                "finish" => Act::Finish,
                _ => Act::Nop,
            };
        }
        let o = v.as_object().unwrap();
        let (k, x) = o.iter().next().unwrap();
        let u = |y: &Value| y.as_u64().unwrap() as usize;
        match k.as_str() {
            "feed" => Act::Feed(u(&x[0]), u(&x[1])),
            "feed_all" => Act::FeedAll(u(x)),
            "release" => Act::Release(u(&x[0]), u(&x[1])),
            "close_in" => Act::CloseIn(u(x)),
            _ => Act::Nop,
        }
    }
}

/// What happened in one step.
#[derive(Clone, Debug)]
pub struct StepObs {
    pub act: Act,
    pub verdict: Verdict,
    pub activity: u64,
    /// Per input: (backlog before, backlog after, closed).
    pub ins: Vec<(usize, usize, bool)>,
    /// Per output: (free before, free after).
    pub outs: Vec<(usize, usize)>,
    pub live_windows: usize,
    /// The block's own eof() after this call (what a runner asks after a wait
    /// verdict).
    pub eof: bool,
}

/// The observations of a whole execution.
#[derive(Clone, Debug)]
pub struct Exec {
    pub steps: Vec<StepObs>,
    pub outputs: Vec<OutRec>,
    /// Number of steps that were explicit actions (the rest is the flush tail).
    pub explicit: usize,
    pub completed: bool,
    pub fed: Vec<usize>,
}

fn apply(inst: &mut Instance, a: Act, last: Option<&Verdict>) {
    match a {
        Act::Satisfy => {
            if let Some(Verdict::WaitStream { id, need, .. }) = last {
                for p in &mut inst.ins {
                    if p.id() == *id {
                        let have = p.backlog();
                        if *need > have {
                            p.feed(*need - have);
                        }
                    }
                }
                for p in &mut inst.outs {
                    if p.id() == *id {
                        let free = p.free();
                        if *need > free {
                            p.release(*need - free);
                        }
                    }
                }
            }
        }
        Act::Flush => {}
        Act::Finish => {
            // (An upstream block cannot finish before its data is out: an
            // input whose stream is too full for the rest stays open.)
            for p in &mut inst.ins {
                p.feed(usize::MAX / 4);
                if p.remaining() == 0 && !p.closed() {
                    p.close();
                }
            }
        }
        Act::Feed(i, n) => {
            inst.ins[i].feed(n);
        }
        Act::FeedAll(n) => {
            for p in &mut inst.ins {
                p.feed(n);
            }
        }
        Act::Release(j, n) => inst.outs[j].release(n),
        Act::CloseIn(i) => inst.ins[i].close(),
        Act::Nop => {}
    }
}

/// The multithreaded runner sits in `stream.wait(need)` between two calls:
/// if, after what the environment just did, the stream the block named has
/// ended holding less than it asked for, the wait says "never" and the block
/// is retired without another call.
fn retired_in_wait(inst: &Instance, last: Option<&Verdict>) -> bool {
    if let Some(Verdict::WaitStream { id, need, .. }) = last {
        for p in &inst.ins {
            if p.id() == *id && p.closed() && p.backlog() < *need {
                return true;
            }
        }
    }
    false
}

fn step(inst: &mut Instance, a: Act, last: Option<&Verdict>) -> Option<StepObs> {
    apply(inst, a, last);
    if retired_in_wait(inst, last) {
        return None;
    }
    Some(step_call(inst, a))
}

fn step_call(inst: &mut Instance, a: Act) -> StepObs {
    let ins_before: Vec<usize> = inst.ins.iter().map(|p| p.backlog()).collect();
    let outs_before: Vec<usize> = inst.outs.iter().map(|p| p.free()).collect();
    let a0 = verif::activity();
    let verdict = inst.work();
    let activity = verif::activity() - a0;
    let live_windows = verif::live_window_count();
    if !matches!(verdict, Verdict::Panic(_)) {
        // After a panic inside work() the stream mutexes may be poisoned.
        inst.observe();
    }
    let eof = if matches!(verdict, Verdict::WaitFunc | Verdict::WaitStream { .. }) {
        let b = &mut inst.block;
        catch(|| rustradio::block::BlockEOF::eof(&mut **b)).unwrap_or(false)
    } else {
        false
    };
    StepObs {
        act: a,
        eof,
        verdict,
        activity,
        ins: inst
            .ins
            .iter()
            .zip(ins_before)
            .map(|(p, b)| (b, p.backlog(), p.closed()))
            .collect(),
        outs: inst.outs.iter().zip(outs_before).map(|(p, b)| (b, p.free())).collect(),
        live_windows,
    }
}

thread_local! {
    static FLUSH_EXTRA: std::cell::Cell<usize> = const { std::cell::Cell::new(0) };
}

/// Allow this many more work() calls in the flush tail (for sources, whose
/// output length is not visible from their inputs).
pub fn set_flush_extra(n: usize) {
    FLUSH_EXTRA.with(|f| f.set(n));
}

/// Run explicit actions, then flush: feed everything, release everything,
/// close inputs once everything is fed, and call work() until it has nothing
/// more to say.
pub fn execute(mut inst: Instance, acts: &[Act], flush: bool) -> Exec {
    verif::reset_windows();
    let mut steps = Vec::new();
    let mut ok = true;
    let mut ended = false;
    for a in acts {
        let last = steps.last().map(|s: &StepObs| s.verdict.clone());
        let Some(s) = step(&mut inst, *a, last.as_ref()) else {
            ended = true;
            break;
        };
        let bad = matches!(s.verdict, Verdict::Panic(_) | Verdict::Err(_));
        let eof = matches!(s.verdict, Verdict::Eof) || runner_retires(&inst, &s);
        steps.push(s);
        if bad {
            ok = false;
            break;
        }
        if eof {
            // A runner never calls a block again after EOF.
            ended = true;
            break;
        }
    }
    let explicit = steps.len();
    // Two calls with nothing changed around the block, before the flush starts
    // to help it along: a block that spins in the situation the actions led to
    // shows it here.
    if ok && !ended && flush {
        for _ in 0..2 {
            let last = steps.last().map(|s: &StepObs| s.verdict.clone());
            let Some(s) = step(&mut inst, Act::Nop, last.as_ref()) else {
                ended = true;
                break;
            };
            let bad = matches!(s.verdict, Verdict::Panic(_) | Verdict::Err(_));
            let eof = matches!(s.verdict, Verdict::Eof) || runner_retires(&inst, &s);
            steps.push(s);
            if bad {
                ok = false;
                break;
            }
            if eof {
                ended = true;
                break;
            }
        }
    }
    let mut completed = ended;
    if ended {
        ok = false;
        for p in &mut inst.outs {
            p.release(usize::MAX / 4);
        }
    }
    if ok && flush {
        let total: usize = inst.ins.iter().map(|p| p.remaining() + p.fed()).sum();
        let cap_calls = 64 + 6 * total + FLUSH_EXTRA.with(|f| f.get());
        let mut idle = 0;
        for _ in 0..cap_calls {
            for p in &mut inst.ins {
                p.feed(usize::MAX / 4);
            }
            for p in &mut inst.outs {
                p.release(usize::MAX / 4);
            }
            // Close inputs that are completely fed.
            for p in &mut inst.ins {
                if p.remaining() == 0 && !p.closed() {
                    p.close();
                }
            }
            let last = steps.last().map(|s: &StepObs| s.verdict.clone());
            let Some(s) = step(&mut inst, Act::Flush, last.as_ref()) else {
                completed = true;
                break;
            };
            let act = s.activity;
            let v = s.verdict.clone();
            let retired = runner_retires(&inst, &s);
            steps.push(s);
            match v {
                Verdict::Panic(_) | Verdict::Err(_) => break,
                Verdict::Eof => {
                    completed = true;
                    break;
                }
                _ => {}
            }
            if retired {
                completed = true;
                break;
            }
            if act == 0 {
                idle += 1;
                // Nothing moved, everything is fed, closed and released: done.
                if idle >= 3 {
                    completed = true;
                    break;
                }
            } else {
                idle = 0;
            }
        }
        for p in &mut inst.outs {
            p.release(usize::MAX / 4);
        }
    }
    let fed = inst.ins.iter().map(|p| p.fed()).collect();
    // A runner drops a retired block; some blocks emit on drop (Hasher). Only
    // after a clean end: a block that panicked may not be safe to drop.
    let outputs = if completed && ok_to_drop(&steps) {
        let Instance { block, ins, mut outs } = inst;
        let r = catch(move || drop(block));
        if r.is_ok() {
            for o in &mut outs {
                o.observe();
            }
        }
        drop(ins);
        outs.iter().map(|o| o.rec().clone()).collect()
    } else {
        inst.records()
    };
    Exec {
        steps,
        outputs,
        explicit,
        completed,
        fed,
    }
}

fn ok_to_drop(steps: &[StepObs]) -> bool {
    !steps.iter().any(|s| matches!(s.verdict, Verdict::Panic(_)))
}

/// Would a runner stop calling the block after this step? Both runners retire
/// a block that reports a wait while its own eof() is true; the multithreaded
/// one also when the stream it waits for can never deliver (input closed with
/// less than `need` buffered). A retired block is never called again, so
/// whatever it still holds is lost: the execution ends here.
pub fn runner_retires(inst: &Instance, s: &StepObs) -> bool {
    if s.eof {
        return true;
    }
    if let Verdict::WaitStream { id, need, closed: true } = &s.verdict {
        for (i, p) in inst.ins.iter().enumerate() {
            if p.id() == *id && p.closed() && s.ins[i].1 < *need {
                return true;
            }
        }
    }
    false
}

/// Is `a` a prefix of `b`, output by output?
pub fn is_prefix(a: &[OutRec], b: &[OutRec]) -> Result<(), String> {
    for (j, (x, y)) in a.iter().zip(b.iter()).enumerate() {
        if x.samples.len() > y.samples.len() || x.samples[..] != y.samples[..x.samples.len()] {
            let i = x.samples.iter().zip(y.samples.iter()).position(|(p, q)| p != q).unwrap_or(y.samples.len());
            return Err(format!(
                "output {j}: sample {i} differs (or extra output): got {:?}.., reference {:?}..",
                &x.samples[i.min(x.samples.len())..(i + 3).min(x.samples.len())],
                &y.samples[i.min(y.samples.len())..(i + 3).min(y.samples.len())]
            ));
        }
        if x.packets.len() > y.packets.len() || x.packets[..] != y.packets[..x.packets.len()] {
            return Err(format!(
                "output {j}: packets differ: got {:?}, reference {:?}",
                x.packets, y.packets
            ));
        }
    }
    Ok(())
}

/// All action sequences of length <= h over a menu.
pub fn sequences(menu: &[Act], h: usize) -> Vec<Vec<Act>> {
    let mut out = vec![vec![]];
    let mut layer = vec![vec![]];
    for _ in 0..h {
        let mut next = Vec::new();
        for s in &layer {
            for a in menu {
                let mut t: Vec<Act> = s.clone();
                t.push(*a);
                next.push(t);
            }
        }
        out.extend(next.iter().cloned());
        layer = next;
    }
    out
}
