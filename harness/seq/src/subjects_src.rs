//! Subjects for C16: finite / infinite sources.
use rustradio::Repeat;
use rustradio::block::Block;
use rustradio::blocks::*;
use rustradio::stream::ReadStream;
use rustradio::verif;
use vcommon::*;

use crate::envcheck::{Spec, Subject};
use crate::envx::*;
use crate::subjects::big_starts;

type B = Big2048;

fn bx<Bk: Block + 'static>(b: Bk) -> Box<dyn Block> {
    Box::new(b)
}

fn rep_of(r: Option<u64>) -> Repeat {
    match r {
        Some(n) => Repeat::finite(n),
        None => Repeat::infinite(),
    }
}

fn src_subject<F>(block: &str, variant: String, data: &[u64], repeat: Option<u64>, tags: Option<Vec<ATag>>, ctor: F) -> Subject
where
    F: Fn() -> (Box<dyn Block>, ReadStream<B>) + Send + Sync + 'static,
{
    let want: Vec<u64> = match repeat {
        Some(r) => (0..r).flat_map(|_| data.iter().copied()).collect(),
        None => {
            if data.is_empty() {
                vec![]
            } else {
                data.iter().copied().cycle().take(64).collect()
            }
        }
    };
    Subject {
        block: block.into(),
        variant,
        quantum: 2,
        build: Box::new(move |st| {
            verif::clear_stream_specs();
            plan_out(st, 1);
            let (b, o) = ctor();
            verif::clear_stream_specs();
            Instance {
                block: b,
                ins: vec![],
                outs: vec![sout(st, o)],
            }
        }),
        starts: big_starts(2),
        ref_pages: 16,
        spec: Some(Spec {
            samples: vec![Some(want)],
            packets: vec![],
            tags: vec![tags],
        }),
        // Empty data with infinite repeat: nothing to emit, ever. The source
        // may say EOF or stay quiet; treat as finite-with-nothing.
        infinite_source: repeat.is_none() && !data.is_empty(),
        horizon: 6,
        no_retire_check: true,
        warmup: vec![],
        horizon_delta: 0,
        prefix_spec: repeat.is_none(),
        sync_check: false,
    }
}

fn tmp_path(tag: &str) -> std::path::PathBuf {
    let dir = std::env::temp_dir().join(format!("verif-src-{}", std::process::id()));
    std::fs::create_dir_all(&dir).unwrap();
    dir.join(tag)
}

pub fn cleanup() {
    let dir = std::env::temp_dir().join(format!("verif-src-{}", std::process::id()));
    let _ = std::fs::remove_dir_all(dir);
}

fn serialize(data: &[u64]) -> Vec<u8> {
    data.iter().flat_map(|x| x.to_le_bytes()).collect()
}

pub const SIGMF_META: &str =
    r#"{"global":{"core:datatype":"ru64_le","core:version":"1.1.0"},"captures":[{"core:sample_start":0}],"annotations":[]}"#;

pub fn source_subjects() -> Vec<Subject> {
    let mut v = Vec::new();
    for len in [0usize, 1, 2, 3, 5] {
        let data: Vec<u64> = (0..len as u64).map(|i| 20 + i).collect();
        for repeat in [Some(0u64), Some(1), Some(2), Some(3), None] {
            if len == 0 && repeat.is_none() {
                // Nothing, forever: neither "emits data" nor "reports EOF" is
                // defined.
                continue;
            }
            let variant = format!("len={len} repeat={repeat:?}");
            // VectorSource, with its marker tags.
            // Infinite repeat: the markers of the 64 samples the
            // specification covers.
            let tags: Option<Vec<ATag>> = Some(repeat.unwrap_or(if len > 0 { 64u64.div_ceil(len as u64) } else { 0 })).map(|r| {
                let mut t = vec![];
                if len > 0 {
                    for k in 0..r {
                        t.push((k as usize * len, "VectorSource::start".to_string(), "Bool(true)".to_string()));
                        t.push((k as usize * len, "VectorSource::repeat".to_string(), format!("U64({k})")));
                    }
                    if r > 0 {
                        t.push((0, "VectorSource::first".to_string(), "Bool(true)".to_string()));
                    }
                }
                t
            });
            let d2 = data.clone();
            v.push(src_subject("VectorSource", variant.clone(), &data, repeat, tags, move || {
                let (b, o) = VectorSourceBuilder::new(d2.iter().map(|x| B::from(*x)).collect())
                    .repeat(rep_of(repeat))
                    .build();
                (bx(b), o)
            }));
            // FileSource.
            let path = tmp_path(&format!("file-{len}"));
            std::fs::write(&path, serialize(&data)).unwrap();
            let p2 = path.clone();
            v.push(src_subject("FileSource", variant.clone(), &data, repeat, None, move || {
                let (mut b, o) = FileSource::<B>::new(&p2).unwrap();
                b.repeat(rep_of(repeat));
                (bx(b), o)
            }));
            // SigMF archive (one tar file; the data sits at an offset).
            if len > 0 {
                let apath = tmp_path(&format!("arch-{len}.sigmf"));
                let bytes = serialize(&data);
                std::fs::write(
                    &apath,
                    crate::crashx::make_tar(&[("rec.sigmf-meta", SIGMF_META.as_bytes(), b'0'), ("rec.sigmf-data", &bytes, b'0')]),
                )
                .unwrap();
                let a2 = apath.clone();
                v.push(src_subject("SigMFSource", format!("archive {variant}"), &data, repeat, None, move || {
                    let (b, o) = SigMFSourceBuilder::<B>::new(a2.clone()).repeat(rep_of(repeat)).build().unwrap();
                    (bx(b), o)
                }));
            }
            // SigMF recording (two files).
            let base = tmp_path(&format!("rec-{len}.sigmf"));
            std::fs::write(format!("{}-meta", base.display()), SIGMF_META).unwrap();
            std::fs::write(format!("{}-data", base.display()), serialize(&data)).unwrap();
            let b2 = base.clone();
            v.push(src_subject("SigMFSource", variant.clone(), &data, repeat, None, move || {
                let (b, o) = SigMFSourceBuilder::<B>::new(b2.clone()).repeat(rep_of(repeat)).build().unwrap();
                (bx(b), o)
            }));
        }
    }
    // Files larger than a buffered reader's internal buffer (8 KiB = 1024
    // serialized samples), so that reads get served in pieces from it.
    for len in [1030usize, 2051] {
        let data: Vec<u64> = (0..len as u64).map(|i| 1000 + i).collect();
        for repeat in [Some(1u64), Some(2)] {
            let variant = format!("len={len} repeat={repeat:?}");
            let path = tmp_path(&format!("file-{len}"));
            std::fs::write(&path, serialize(&data)).unwrap();
            let p2 = path.clone();
            let mut s = src_subject("FileSource", variant.clone(), &data, repeat, None, move || {
                let (mut b, o) = FileSource::<B>::new(&p2).unwrap();
                b.repeat(rep_of(repeat));
                (bx(b), o)
            });
            s.horizon_delta = -1;
            v.push(s);
            let base = tmp_path(&format!("rec-{len}.sigmf"));
            std::fs::write(format!("{}-meta", base.display()), SIGMF_META).unwrap();
            std::fs::write(format!("{}-data", base.display()), serialize(&data)).unwrap();
            let b2 = base.clone();
            let mut s = src_subject("SigMFSource", variant.clone(), &data, repeat, None, move || {
                let (b, o) = SigMFSourceBuilder::<B>::new(b2.clone()).repeat(rep_of(repeat)).build().unwrap();
                (bx(b), o)
            });
            s.horizon_delta = -1;
            v.push(s);
        }
    }
    v
}
