//! C14: byte formats round-trip and survive arbitrary read segmentation.
use std::io::Write;

use rustradio::block::{Block, BlockRet};
use rustradio::blocks::*;
use rustradio::file_sink::Mode;
use rustradio::graph::{Graph, GraphRunner};
use rustradio::verif;
use rustradio::{Complex, Float, Sample};
use serde_json::{Value, json};
use vcommon::*;

use crate::envx::Bits;

fn tmpdir() -> std::path::PathBuf {
    let d = std::env::temp_dir().join(format!("verif-formats-{}", std::process::id()));
    std::fs::create_dir_all(&d).unwrap();
    d
}

fn viol(rep: &mut Report, subject: &str, clause: &str, msg: String, case: Value) {
    rep.violation(
        format!("C14/{subject}/{clause}"),
        msg,
        json!({"engine": "formats", "case": case}),
    );
}

// ---------------------------------------------------------------------------
// 1. parse(serialize(x)) == x
// ---------------------------------------------------------------------------
fn u32_patterns(thorough: bool, shard: u32, nshards: u32) -> Box<dyn Iterator<Item = u32>> {
    if thorough {
        // Everything, split across shards.
        let per = (1u64 << 32) / nshards as u64;
        let lo = per * shard as u64;
        let hi = if shard + 1 == nshards { 1u64 << 32 } else { lo + per };
        return Box::new((lo..hi).map(|x| x as u32));
    }
    let mut v: Vec<u32> = vec![0, u32::MAX];
    for i in 0..32 {
        v.push(1 << i);
        v.push(!(1u32 << i));
        for j in (i + 1)..32 {
            v.push((1 << i) | (1 << j));
        }
    }
    // Every exponent byte (and sign) with a few mantissas: all float classes.
    for e in 0..=255u32 {
        for s in [0u32, 1] {
            for m in [0u32, 1, 0x400000, 0x7fffff, 0x123456, 0x2aaaaa, 0x555555, 0x000100] {
                v.push((s << 31) | (e << 23) | m);
            }
        }
    }
    // NaN payload bits.
    for b in 0..23 {
        v.push(0x7f800000 | (1 << b));
        v.push(0xff800000 | (1 << b) | 1);
    }
    v.sort();
    v.dedup();
    Box::new(v.into_iter())
}

fn roundtrip(rep: &mut Report, thorough: bool, shard: u32, nshards: u32) {
    let mut n = 0u64;
    if shard == 0 {
        for x in 0..=255u8 {
            n += 1;
            let back = catch(|| <u8 as Sample>::parse(&x.serialize()));
            if !matches!(back, Ok(Ok(y)) if y == x) {
                viol(rep, "Sample<u8>", "roundtrip", format!("u8 {x}: parse(serialize) gave {back:?}"), json!({"type":"u8","bits":x}));
            }
        }
    }
    if shard == 0 {
        // Strings are written as their UTF-8 bytes (parse() is a stub: no
        // round trip to make).
        for st in ["", "plain", "Hej p\u{e5} dig", "\u{20ac}", "\u{fffd}x", "a\nb", "\u{1f4e1} 73"] {
            n += 1;
            let got = st.to_string().serialize();
            if got != st.as_bytes() {
                viol(rep, "Sample<String>", "serialize", format!("{st:?} serialises to {got:02x?}, its UTF-8 bytes are {:02x?}", st.as_bytes()), json!({"type":"String","value":st}));
            }
        }
    }
    for bits in u32_patterns(thorough, shard, nshards) {
        n += 3;
        let b = bits.serialize();
        match <u32 as Sample>::parse(&b) {
            Ok(y) if y == bits => {}
            r => viol(rep, "Sample<u32>", "roundtrip", format!("u32 {bits:#x}: parse(serialize) gave {r:?}"), json!({"type":"u32","bits":bits})),
        }
        let i = bits as i32;
        match <i32 as Sample>::parse(&i.serialize()) {
            Ok(y) if y == i => {}
            r => viol(rep, "Sample<i32>", "roundtrip", format!("i32 {i}: parse(serialize) gave {r:?}"), json!({"type":"i32","bits":bits})),
        }
        let f = f32::from_bits(bits);
        match <Float as Sample>::parse(&f.serialize()) {
            Ok(y) if y.to_bits() == bits => {}
            r => viol(rep, "Sample<f32>", "roundtrip", format!("f32 bits {bits:#x}: parse(serialize) gave {:?}", r.map(|y| y.to_bits())), json!({"type":"f32","bits":bits})),
        }
        if bits.serialize().len() != 4 || f.serialize().len() != <Float as Sample>::size() {
            viol(rep, "Sample", "size", "serialize() length differs from size()".into(), json!({"type":"f32","bits":bits}));
        }
    }
    if shard == 0 {
        // Complex: the quick set in each component against 8 partners.
        let partners = [0u32, 0x80000000, 0x3f800000, 0x7fc00001, 0xff800000, 0x00000001, 0x7f7fffff, 0xdeadbeef];
        for bits in u32_patterns(false, 0, 1) {
            for p in partners {
                for (re, im) in [(bits, p), (p, bits)] {
                    n += 1;
                    let c = Complex::new(f32::from_bits(re), f32::from_bits(im));
                    match <Complex as Sample>::parse(&c.serialize()) {
                        Ok(y) if y.re.to_bits() == re && y.im.to_bits() == im => {}
                        r => viol(
                            rep,
                            "Sample<Complex>",
                            "roundtrip",
                            format!("Complex ({re:#x},{im:#x}): parse(serialize) gave {:?}", r.map(|y| (y.re.to_bits(), y.im.to_bits()))),
                            json!({"type":"complex","re":re,"im":im}),
                        ),
                    }
                }
            }
        }
    }
    rep.evaluations += n;
    rep.distinct_nontrivial += n;
    rep.add("roundtrip_values", n);
}

// ---------------------------------------------------------------------------
// 2. FileSink -> FileSource, AuEncode -> AuDecode through the real runner.
// ---------------------------------------------------------------------------
fn run_graph(blocks: Vec<Box<dyn Block + Send>>) -> Result<(), String> {
    let mut g = Graph::new();
    for b in blocks {
        g.add(b);
    }
    match catch(|| g.run()) {
        Err(p) => Err(format!("panic: {p}")),
        Ok(Err(e)) => Err(format!("error: {e}")),
        Ok(Ok(())) => Ok(()),
    }
}

fn file_roundtrip<T>(rep: &mut Report, name: &str, data: Vec<T>, pages: usize, eq: impl Fn(&T, &T) -> bool)
where
    T: Copy + Send + Sync + Default + std::fmt::Debug + Sample<Type = T> + 'static,
{
    verif::clear_stream_specs();
    verif::set_default_stream_size(Some(pages * PAGE));
    let path = tmpdir().join("rt.bin");
    let _ = std::fs::remove_file(&path);
    let case = json!({"what": "file", "type": name, "len": data.len(), "pages": pages});
    rep.evaluations += 1;
    rep.distinct_nontrivial += 1;
    // Every other case writes over an older, longer recording at the path.
    let over = data.len() % 2 == 1;
    if over {
        std::fs::write(&path, vec![0xabu8; data.len() * <T as Sample>::size() + 4096]).unwrap();
    }
    let (src, o) = VectorSource::new(data.clone());
    let sink = match FileSink::<T>::new(o, &path, if over { Mode::Overwrite } else { Mode::Create }) {
        Ok(s) => s,
        Err(e) => return viol(rep, "FileSink", "open", format!("{case}: {e}"), case),
    };
    if let Err(m) = run_graph(vec![Box::new(src), Box::new(sink)]) {
        return viol(rep, "FileSink", "run", format!("{case}: {m}"), case);
    }
    let bytes = std::fs::read(&path).unwrap_or_default();
    let want: Vec<u8> = data.iter().flat_map(|x| x.serialize()).collect();
    if bytes != want {
        return viol(
            rep,
            "FileSink",
            "file-content",
            format!("{case}: file has {} bytes, serialised stream has {}", bytes.len(), want.len()),
            case,
        );
    }
    let (src, o) = match FileSource::<T>::new(&path) {
        Ok(x) => x,
        Err(e) => return viol(rep, "FileSource", "open", format!("{case}: {e}"), case),
    };
    let sink = VectorSink::new(o, usize::MAX / 2);
    let hook = sink.hook();
    if let Err(m) = run_graph(vec![Box::new(src), Box::new(sink)]) {
        return viol(rep, "FileSource", "run", format!("{case}: {m}"), case);
    }
    let got = hook.data().samples().to_vec();
    if got.len() != data.len() || got.iter().zip(&data).any(|(a, b)| !eq(a, b)) {
        viol(
            rep,
            "FileSource",
            "roundtrip",
            format!("{case}: read back {} samples, wrote {}; first difference at {:?}", got.len(), data.len(), got.iter().zip(&data).position(|(a, b)| !eq(a, b))),
            case,
        );
    }
}

fn au_roundtrip(rep: &mut Report, data: Vec<f32>, order: [usize; 4]) {
    verif::clear_stream_specs();
    verif::set_default_stream_size(Some(PAGE));
    let case = json!({"what": "au", "len": data.len(), "order": order});
    rep.evaluations += 1;
    rep.distinct_nontrivial += 1;
    let (src, o) = VectorSource::new(data.clone());
    let (enc, o) = AuEncode::new(o, rustradio::au::Encoding::Pcm16, 8000, 1);
    let (dec, o) = AuDecode::new(o, 8000);
    let sink = VectorSink::new(o, usize::MAX / 2);
    let hook = sink.hook();
    let mut slots: Vec<Option<Box<dyn Block + Send>>> = vec![Some(Box::new(src)), Some(Box::new(enc)), Some(Box::new(dec)), Some(Box::new(sink))];
    let blocks: Vec<Box<dyn Block + Send>> = order.iter().map(|i| slots[*i].take().unwrap()).collect();
    if let Err(m) = run_graph(blocks) {
        return viol(rep, "AuEncode+AuDecode", "run", format!("{case}: {m}"), case);
    }
    let got = hook.data().samples().to_vec();
    let want: Vec<f32> = data.iter().map(|x| ((x * 32767.0) as i16) as f32 / 32767.0).collect();
    if got.len() != want.len() {
        return viol(
            rep,
            "AuEncode+AuDecode",
            "count",
            format!("{case}: decoded {} samples from {} encoded", got.len(), want.len()),
            case,
        );
    }
    if let Some(i) = got.iter().zip(&want).position(|(a, b)| a.to_bits() != b.to_bits()) {
        viol(
            rep,
            "AuEncode+AuDecode",
            "value",
            format!("{case}: sample {i} decodes to {}, PCM16 quantisation of {} is {}", got[i], data[i], want[i]),
            case,
        );
    }
}

// ---------------------------------------------------------------------------
// 3. SigMF recording / archive, members in every order.
// ---------------------------------------------------------------------------
fn sigmf_orders(rep: &mut Report) {
    verif::clear_stream_specs();
    verif::set_default_stream_size(Some(PAGE));
    let meta = r#"{"global":{"core:datatype":"ri32_le","core:version":"1.1.0"},"captures":[{"core:sample_start":0}],"annotations":[]}"#;
    let data: Vec<i32> = vec![0, 1, -1, i32::MAX, i32::MIN, 0x01020304, -123456, 7, 8, 9, 10];
    let bytes: Vec<u8> = data.iter().flat_map(|x| x.to_le_bytes()).collect();
    let dir = tmpdir();
    let read_all = |path: &std::path::Path| -> Result<Vec<i32>, String> {
        let (b, o) = SigMFSourceBuilder::<i32>::new(path.to_path_buf()).build().map_err(|e| format!("open: {e}"))?;
        let sink = VectorSink::new(o, usize::MAX / 2);
        let hook = sink.hook();
        run_graph(vec![Box::new(b), Box::new(sink)])?;
        let v = hook.data().samples().to_vec();
        Ok(v)
    };
    // Recording pair.
    let base = dir.join("pair.sigmf");
    let _ = std::fs::remove_file(&base);
    std::fs::write(format!("{}-meta", base.display()), meta).unwrap();
    std::fs::write(format!("{}-data", base.display()), &bytes).unwrap();
    rep.evaluations += 1;
    match read_all(&base) {
        Ok(v) if v == data => {}
        r => viol(rep, "SigMFSource", "recording", format!("recording pair read back as {r:?}"), json!({"what":"sigmf","kind":"recording"})),
    }
    // Archives: four members in all 24 orders.
    let members: Vec<(&str, Vec<u8>)> = vec![
        ("rec.sigmf-meta", meta.as_bytes().to_vec()),
        ("rec.sigmf-data", bytes.clone()),
        ("README.txt", b"unrelated".to_vec()),
        ("other.bin", vec![0xffu8; 700]),
    ];
    let mut idx = [0usize, 1, 2, 3];
    let mut perms = vec![];
    fn heap(k: usize, a: &mut [usize; 4], out: &mut Vec<[usize; 4]>) {
        if k == 1 {
            out.push(*a);
            return;
        }
        for i in 0..k {
            heap(k - 1, a, out);
            if k % 2 == 0 {
                a.swap(i, k - 1);
            } else {
                a.swap(0, k - 1);
            }
        }
    }
    heap(4, &mut idx, &mut perms);
    for p in perms {
        let ms: Vec<(&str, &[u8], u8)> = p.iter().map(|i| (members[*i].0, &members[*i].1[..], b'0')).collect();
        let tar = crate::crashx::make_tar(&ms);
        let path = dir.join("arch.sigmf");
        std::fs::write(&path, tar).unwrap();
        rep.evaluations += 1;
        rep.distinct_nontrivial += 1;
        let case = json!({"what":"sigmf","kind":"archive","order": p.iter().map(|i| members[*i].0).collect::<Vec<_>>()});
        match read_all(&path) {
            Ok(v) if v == data => {}
            r => viol(rep, "SigMFSource", "archive", format!("{case}: read back as {r:?}"), case),
        }
    }
    // Unrelated members with names close to the recording's, before and after
    // it; and the recording inside a directory of the archive.
    let near = [
        "backup/rec.sigmf-data",
        "old/backup/rec.sigmf-data",
        "rec.sigmf-data.bak",
        "xrec.sigmf-data",
        "rec.sigmf-datax",
        "rec.sigmf",
        "REC.SIGMF-DATA",
        "rec.sigmf-meta.orig",
        "backup/rec.sigmf-meta.txt",
        "other.sigmf-data",
    ];
    for extra in near {
        for (before, dirprefix) in [(true, ""), (false, ""), (true, "capture/")] {
            let mname = format!("{dirprefix}rec.sigmf-meta");
            let dname = format!("{dirprefix}rec.sigmf-data");
            let junk = vec![0x5au8; 44];
            let mut ms: Vec<(&str, &[u8], u8)> = vec![(&mname, meta.as_bytes(), b'0'), (&dname, &bytes[..], b'0')];
            if before {
                ms.insert(0, (extra, &junk[..], b'0'));
            } else {
                ms.push((extra, &junk[..], b'0'));
            }
            let tar = crate::crashx::make_tar(&ms);
            let path = dir.join("arch2.sigmf");
            std::fs::write(&path, tar).unwrap();
            rep.evaluations += 1;
            rep.distinct_nontrivial += 1;
            let case = json!({"what":"sigmf","kind":"archive-near-names","extra": extra, "before": before, "dir": dirprefix});
            match read_all(&path) {
                Ok(v) if v == data => {}
                r => viol(rep, "SigMFSource", "archive", format!("{case}: read back as {r:?}"), case),
            }
        }
    }
}

// ---------------------------------------------------------------------------
// 4. Read segmentation: FIFO for FileSource, loopback socket for TcpSource.
// ---------------------------------------------------------------------------
fn work_once(b: &mut dyn Block) -> Result<String, String> {
    match catch(|| {
        b.work().map(|r| match r {
            BlockRet::EOF => "EOF".to_string(),
            BlockRet::Again => "Again".to_string(),
            BlockRet::Pending => "Pending".to_string(),
            BlockRet::WaitForStream(..) => "Wait".to_string(),
            BlockRet::WaitForFunc(_) => "WaitFunc".to_string(),
        })
    }) {
        Err(p) => Err(format!("panic: {p}")),
        Ok(Err(e)) => Err(format!("error: {e}")),
        Ok(Ok(s)) => Ok(s),
    }
}

#[allow(dead_code)]
fn open_fds() -> Vec<i32> {
    let mut v: Vec<i32> = std::fs::read_dir("/proc/self/fd")
        .map(|d| d.filter_map(|e| e.ok()?.file_name().to_str()?.parse().ok()).collect())
        .unwrap_or_default();
    v.sort();
    v
}

#[allow(dead_code)]
fn rx_queue(port: u16) -> Option<usize> {
    // Bytes queued for the socket whose local port is `port` (the client end).
    let txt = std::fs::read_to_string("/proc/net/tcp").ok()?;
    for line in txt.lines().skip(1) {
        let f: Vec<&str> = line.split_whitespace().collect();
        if f.len() < 5 {
            continue;
        }
        let local = f[1];
        if let Some((_, p)) = local.split_once(':') {
            if u16::from_str_radix(p, 16).ok()? == port && f[3] == "01" {
                let (_, rx) = f[4].split_once(':')?;
                return usize::from_str_radix(rx, 16).ok();
            }
        }
    }
    None
}

/// Close with a reset: tens of thousands of connections in a row would
/// otherwise sit in TIME_WAIT and use up the ephemeral ports.
fn close_with_reset(conn: std::net::TcpStream) {
    use std::os::fd::AsRawFd;
    let l = libc::linger { l_onoff: 1, l_linger: 0 };
    // SAFETY: setsockopt on our own socket with a properly sized struct.
    unsafe {
        libc::setsockopt(
            conn.as_raw_fd(),
            libc::SOL_SOCKET,
            libc::SO_LINGER,
            &l as *const libc::linger as *const libc::c_void,
            std::mem::size_of::<libc::linger>() as libc::socklen_t,
        );
    }
    drop(conn);
}

/// More bytes queued on the socket than the output stream has room for: the
/// source has to take them in several calls, dropping nothing.
fn tcp_bulk(rep: &mut Report) {
    verif::clear_stream_specs();
    verif::set_default_stream_size(Some(PAGE));
    let nbytes = 10_007usize;
    let stream: Vec<u8> = (0..nbytes).map(|i| (i as u32).wrapping_mul(2654435761).to_le_bytes()[1]).collect();
    let want: Vec<u64> = stream.chunks_exact(4).map(|c| u32::from_le_bytes(c.try_into().unwrap()) as u64).collect();
    rep.evaluations += 1;
    rep.distinct_nontrivial += 1;
    let case = json!({"what": "segmentation", "transport": "tcp-bulk", "type": "u32", "bytes": nbytes});
    let mut got: Vec<u64> = vec![];
    let res: Result<(), String> = (|| {
        let listener = std::net::TcpListener::bind("127.0.0.1:0").map_err(|e| format!("machinery: {e}"))?;
        let port = listener.local_addr().unwrap().port();
        // SAFETY: dup/close of stdin's descriptor, to learn the next free number.
        let client_fd = unsafe {
            let p = libc::dup(0);
            libc::close(p);
            p
        };
        let (mut src, out) = TcpSource::<u32>::new("127.0.0.1", port).map_err(|e| format!("machinery: connecting to our own listener failed: {e}"))?;
        let (mut conn, _) = listener.accept().map_err(|e| format!("machinery: {e}"))?;
        // SAFETY: fstat on a descriptor number.
        let mut st: libc::stat = unsafe { std::mem::zeroed() };
        if unsafe { libc::fstat(client_fd, &mut st) } != 0 || (st.st_mode & libc::S_IFMT) != libc::S_IFSOCK {
            return Err("machinery: cannot identify the client socket".into());
        }
        conn.write_all(&stream).map_err(|e| format!("machinery: {e}"))?;
        conn.flush().ok();
        let queued = || -> usize {
            let mut q: libc::c_int = 0;
            // SAFETY: FIONREAD writes one int.
            let rc = unsafe { libc::ioctl(client_fd, libc::FIONREAD, &mut q) };
            if rc == 0 { q as usize } else { 0 }
        };
        let t0 = std::time::Instant::now();
        while queued() < nbytes {
            if t0.elapsed().as_millis() > 3000 {
                return Err("machinery: bytes never showed up in the receive queue".into());
            }
            std::thread::yield_now();
        }
        // The read blocks: only call while something is queued.
        let mut calls = 0;
        while queued() > 0 {
            calls += 1;
            if calls > 100 {
                return Err("error: 100 calls and the socket is still not drained".into());
            }
            work_once(&mut src)?;
            let (rb, _) = out.read_buf().map_err(|e| format!("{e}"))?;
            got.extend(rb.slice().iter().map(|x| *x as u64));
            let n = rb.len();
            rb.consume(n);
        }
        close_with_reset(conn);
        Ok(())
    })();
    match res {
        Err(m) if m.starts_with("machinery") => rep.cap(format!("{case}: {m}")),
        Err(m) => viol(rep, "TcpSource", if m.starts_with("panic") { "segmentation-panic" } else { "segmentation-error" }, format!("{case}: {m}"), case),
        Ok(()) => {
            if got != want {
                viol(
                    rep,
                    "TcpSource",
                    "segmentation",
                    format!("{case}: reassembled {} samples, the byte stream holds {}", got.len(), want.len()),
                    case,
                );
            }
        }
    }
}

fn segmentation<T>(rep: &mut Report, name: &str, stream: &[u8], comps: &[Vec<usize>], transport: &str)
where
    T: Copy + Default + std::fmt::Debug + Bits + Sample<Type = T> + 'static,
{
    let size = <T as Sample>::size();
    let want: Vec<u64> = stream.chunks_exact(size).map(|c| <T as Sample>::parse(c).unwrap().bits()).collect();
    for comp in comps {
        verif::clear_stream_specs();
        verif::set_default_stream_size(Some(PAGE));
        rep.evaluations += 1;
        rep.transitions += comp.len() as u64;
        if comp.len() > 1 {
            rep.distinct_nontrivial += 1;
        }
        let case = json!({"what": "segmentation", "transport": transport, "type": name, "reads": comp});
        let mut got: Vec<u64> = vec![];
        let res: Result<(), String> = (|| {
            if transport == "fifo" {
                let path = tmpdir().join("seg.fifo");
                let _ = std::fs::remove_file(&path);
                let c = std::ffi::CString::new(path.to_str().unwrap()).unwrap();
                // SAFETY: plain mkfifo(3).
                if unsafe { libc::mkfifo(c.as_ptr(), 0o600) } != 0 {
                    return Err("machinery: mkfifo failed".into());
                }
                // Open both ends without blocking: O_RDWR on our side.
                let mut wr = std::fs::OpenOptions::new().read(true).write(true).open(&path).map_err(|e| format!("machinery: {e}"))?;
                let (mut src, out) = FileSource::<T>::new(&path).map_err(|e| format!("open: {e}"))?;
                let mut pos = 0;
                for k in comp {
                    wr.write_all(&stream[pos..pos + k]).map_err(|e| format!("machinery: {e}"))?;
                    pos += k;
                    work_once(&mut src)?;
                    let (rb, _) = out.read_buf().map_err(|e| format!("{e}"))?;
                    got.extend(rb.slice().iter().map(|x| x.bits()));
                    let n = rb.len();
                    rb.consume(n);
                }
                drop(wr);
                Ok(())
            } else {
                let listener = std::net::TcpListener::bind("127.0.0.1:0").map_err(|e| format!("machinery: {e}"))?;
                let port = listener.local_addr().unwrap().port();
                // The client socket gets the lowest free descriptor number.
                // SAFETY: dup/close of stdin's descriptor.
                let client_fd = unsafe {
                    let p = libc::dup(0);
                    libc::close(p);
                    p
                };
                let (mut src, out) = TcpSource::<T>::new("127.0.0.1", port).map_err(|e| format!("machinery: connecting to our own listener failed: {e}"))?;
                let (mut conn, peer) = listener.accept().map_err(|e| format!("machinery: {e}"))?;
                let _ = peer;
                {
                    // Make sure it is a socket.
                    // SAFETY: fstat on a descriptor number.
                    let mut st: libc::stat = unsafe { std::mem::zeroed() };
                    let rc = unsafe { libc::fstat(client_fd, &mut st) };
                    if rc != 0 || (st.st_mode & libc::S_IFMT) != libc::S_IFSOCK {
                        return Err("machinery: cannot identify the client socket".into());
                    }
                }
                conn.set_nodelay(true).ok();
                let mut pos = 0;
                for k in comp {
                    conn.write_all(&stream[pos..pos + k]).map_err(|e| format!("machinery: {e}"))?;
                    conn.flush().ok();
                    pos += k;
                    // Wait until the kernel has queued exactly these bytes for
                    // the reader.
                    let t0 = std::time::Instant::now();
                    loop {
                        let mut q: libc::c_int = 0;
                        // SAFETY: FIONREAD writes one int.
                        let rc = unsafe { libc::ioctl(client_fd, libc::FIONREAD, &mut q) };
                        if rc == 0 && q as usize >= *k {
                            break;
                        }
                        if t0.elapsed().as_millis() > 2000 {
                            return Err("machinery: bytes never showed up in the receive queue".into());
                        }
                        std::thread::yield_now();
                    }
                    work_once(&mut src)?;
                    let (rb, _) = out.read_buf().map_err(|e| format!("{e}"))?;
                    got.extend(rb.slice().iter().map(|x| x.bits()));
                    let n = rb.len();
                    rb.consume(n);
                }
                close_with_reset(conn);
                Ok(())
            }
        })();
        match res {
            Err(m) if m.starts_with("machinery") => {
                rep.cap(format!("{case}: {m}"));
            }
            Err(m) => viol(rep, if transport == "fifo" { "FileSource" } else { "TcpSource" }, if m.starts_with("panic") { "segmentation-panic" } else { "segmentation-error" }, format!("{case}: {m}"), case),
            Ok(()) => {
                if got != want {
                    viol(
                        rep,
                        if transport == "fifo" { "FileSource" } else { "TcpSource" },
                        "segmentation",
                        format!("{case}: reassembled {} samples {:x?}.., the byte stream holds {} samples {:x?}..", got.len(), &got[..got.len().min(3)], want.len(), &want[..want.len().min(3)]),
                        case,
                    );
                }
            }
        }
    }
}

pub fn replay_json(v: &Value) -> Result<(), String> {
    let case = &v["case"];
    let mut rep = Report::new("C14", "formats");
    match case["what"].as_str().unwrap_or("") {
        "segmentation" if case["transport"] == "tcp-bulk" => tcp_bulk(&mut rep),
        "segmentation" => {
            let comp: Vec<usize> = case["reads"].as_array().unwrap().iter().map(|x| x.as_u64().unwrap() as usize).collect();
            let stream: Vec<u8> = (0..24u8).map(|i| i.wrapping_mul(37).wrapping_add(11)).collect();
            let tr = case["transport"].as_str().unwrap();
            match case["type"].as_str().unwrap() {
                "u8" => segmentation::<u8>(&mut rep, "u8", &stream[..12], &[comp], tr),
                "f32" => segmentation::<f32>(&mut rep, "f32", &stream[..12], &[comp], tr),
                _ => segmentation::<Complex>(&mut rep, "Complex", &stream[..24], &[comp], tr),
            }
        }
        "au" => {
            let n = case["len"].as_u64().unwrap() as usize;
            let o: Vec<usize> = case["order"].as_array().unwrap().iter().map(|x| x.as_u64().unwrap() as usize).collect();
            au_roundtrip(&mut rep, au_data(n), [o[0], o[1], o[2], o[3]]);
        }
        "sigmf" => sigmf_orders(&mut rep),
        "file" => file_cases(&mut rep, false),
        _ => roundtrip(&mut rep, false, 0, 1),
    }
    let sig = v.get("signature").and_then(|s| s.as_str()).unwrap_or("");
    let _ = sig;
    match rep.violations.first() {
        Some(x) => Err(format!("[{}] {}", x.signature, x.message)),
        None => Ok(()),
    }
}

/// Length 15 is the over-range vector: values at and beyond full scale,
/// infinities, NaN. PCM16 quantisation saturates.
const AU_OVER: [f32; 15] = [
    1.0,
    -1.0,
    1.00004,
    -1.00004,
    1.5,
    -1.5,
    2.0,
    -2.0,
    1e9,
    -1e9,
    f32::INFINITY,
    f32::NEG_INFINITY,
    f32::MAX,
    f32::NAN,
    0.0,
];

fn au_data(n: usize) -> Vec<f32> {
    if n == AU_OVER.len() {
        return AU_OVER.to_vec();
    }
    (0..n).map(|i| ((i as f32 * 0.37).sin() * 0.99) * if i % 7 == 0 { 1.0 } else { 0.5 }).collect()
}

fn file_cases(rep: &mut Report, thorough: bool) {
    for pages in if thorough { vec![1usize, 2] } else { vec![1usize] } {
        let capb = |sz: usize| pages * PAGE / sz;
        let lens = |cap: usize| vec![0usize, 1, cap - 1, cap, cap + 1, 3 * cap + 2];
        for n in lens(capb(1)) {
            file_roundtrip::<u8>(rep, "u8", (0..n).map(|i| (i * 7 + 3) as u8).collect(), pages, |a, b| a == b);
        }
        for n in lens(capb(4)) {
            file_roundtrip::<u32>(rep, "u32", (0..n as u32).map(|i| i.wrapping_mul(0x9E3779B1)).collect(), pages, |a, b| a == b);
            file_roundtrip::<i32>(rep, "i32", (0..n as i32).map(|i| i.wrapping_mul(-0x61c88647)).collect(), pages, |a, b| a == b);
            file_roundtrip::<f32>(rep, "f32", (0..n as u32).map(|i| f32::from_bits(i.wrapping_mul(0x9E3779B1))).collect(), pages, |a, b| a.to_bits() == b.to_bits());
        }
        for n in lens(capb(8)) {
            file_roundtrip::<Complex>(
                rep,
                "Complex",
                (0..n as u32).map(|i| Complex::new(f32::from_bits(i.wrapping_mul(0x9E3779B1)), f32::from_bits(!i))).collect(),
                pages,
                |a, b| a.re.to_bits() == b.re.to_bits() && a.im.to_bits() == b.im.to_bits(),
            );
        }
        for n in [0usize, 1, 2, 3, 7] {
            file_roundtrip::<Big2048>(rep, "Big2048", (0..n as u64).map(Big2048::from).collect(), pages, |a, b| a.v == b.v);
        }
    }
}

pub const PARTS: [&str; 6] = ["roundtrip", "file", "au", "sigmf", "fifo", "tcp"];

pub fn run(tier: &str, shard: Option<&str>) -> Report {
    let thorough = tier == "thorough";
    let mut rep = Report::new("C14", "formats");
    rep.rule = "roundtrip: parse(serialize(x)) for all 256 u8, and for u32/i32/f32 every pattern with <= 2 set or clear bits, \
        every sign/exponent with 8 mantissas, every NaN payload bit (thorough: all 2^32), Complex = that set x 8 partners; \
        file: FileSink then FileSource through Graph::run for every type x lengths {0,1,cap-1,cap,cap+1,3cap+2}; au: \
        AuEncode then AuDecode in one graph, every add order; sigmf: recording pair, and an archive with 4 members in all 24 \
        orders; segmentation: EVERY composition of a 12-byte (Complex: a selection for 24 bytes) stream into reads, fed in \
        lockstep through a FIFO (FileSource) and a loopback socket (TcpSource), against a byte-queue reassembler"
        .into();
    rep.assumptions = vec![
        "SigMF data is read from a regular file whose read() cannot be segmented from outside: only its short read at end of file is exercised".into(),
        "loopback segmentation waits until /proc/net/tcp shows the bytes queued before calling work()".into(),
    ];
    let (part, sub) = match shard {
        Some(s) => match s.split_once(':') {
            Some((a, b)) => (Some(a.to_string()), Some(b.to_string())),
            None => (Some(s.to_string()), None),
        },
        None => (None, None),
    };
    let want = |p: &str| part.as_deref().map(|x| x == p).unwrap_or(true);
    if want("roundtrip") {
        let (i, n) = match &sub {
            Some(s) => {
                let (a, b) = s.split_once('/').unwrap();
                (a.parse().unwrap(), b.parse().unwrap())
            }
            None => (0, 1),
        };
        roundtrip(&mut rep, thorough, i, n);
    }
    if want("file") {
        file_cases(&mut rep, thorough);
    }
    if want("au") {
        let orders: Vec<[usize; 4]> = {
            let mut v = vec![];
            for a in 0..4 {
                for b in 0..4 {
                    for c in 0..4 {
                        for d in 0..4 {
                            let o = [a, b, c, d];
                            let mut s = o.to_vec();
                            s.sort();
                            if s == vec![0, 1, 2, 3] {
                                v.push(o);
                            }
                        }
                    }
                }
            }
            v
        };
        for n in [0usize, 1, 2, 5, 15, 1023, 1024, 1025, 2047, 2048, 2049, 5000] {
            for o in &orders {
                if !thorough && n > 5 && o != &[0, 1, 2, 3] && o != &[3, 2, 1, 0] {
                    continue;
                }
                au_roundtrip(&mut rep, au_data(n), *o);
            }
        }
    }
    if want("sigmf") {
        sigmf_orders(&mut rep);
    }
    let stream: Vec<u8> = (0..24u8).map(|i| i.wrapping_mul(37).wrapping_add(11)).collect();
    let comps12 = compositions(12, 12);
    for tr in ["fifo", "tcp"] {
        if want(tr) {
            segmentation::<u8>(&mut rep, "u8", &stream[..12], &comps12, tr);
            segmentation::<f32>(&mut rep, "f32", &stream[..12], &comps12, tr);
            // Complex: 8-byte samples. All compositions of 12 bytes cover
            // every split inside the first sample; add 24-byte streams with
            // parts up to 9 for splits in later samples.
            segmentation::<Complex>(&mut rep, "Complex", &stream[..16], &compositions(16, 16).into_iter().step_by(if thorough { 1 } else { 13 }).collect::<Vec<_>>(), tr);
        }
    }
    if want("tcp") {
        tcp_bulk(&mut rep);
    }
    let _ = std::fs::remove_dir_all(tmpdir());
    rep.states = rep.evaluations;
    rep.traces_validated = rep.evaluations;
    rep.sample(json!({"what": "segmentation", "transport": "tcp", "type": "f32", "reads": [6, 3, 3]}));
    rep.sample(json!({"what": "au", "len": 1025, "order": [3, 2, 1, 0]}));
    rep
}
