//! C16, second half: every call sequence on the `Repeat` API up to a depth,
//! against a five-line reference counter.
use rustradio::Repeat;
use serde_json::json;
use vcommon::*;

#[derive(Clone, Copy, Debug, PartialEq)]
enum Call {
    Again,
    Done,
    Count,
}

fn run_seq(n: Option<u64>, seq: &[Call]) -> Result<(), String> {
    let mut r = match n {
        Some(n) => Repeat::finite(n),
        None => Repeat::infinite(),
    };
    let mut c: u64 = 0; // reference: completed repetitions
    for (i, call) in seq.iter().enumerate() {
        let res = catch(|| match call {
            Call::Again => r.again() as u64,
            Call::Done => r.done() as u64,
            Call::Count => r.count(),
        });
        let got = match res {
            Ok(g) => g,
            Err(p) => return Err(format!("call {i} ({call:?}) panicked: {p}")),
        };
        let want = match call {
            Call::Again => {
                c += 1;
                match n {
                    Some(n) => (c < n) as u64,
                    None => 1,
                }
            }
            Call::Done => match n {
                Some(n) => (c >= n) as u64,
                None => 0,
            },
            Call::Count => c,
        };
        if got != want {
            return Err(format!("call {i} ({call:?}) returned {got}, reference says {want} (after {c} completed of {n:?})"));
        }
    }
    Ok(())
}

pub fn replay_json(v: &serde_json::Value) -> Result<(), String> {
    let n = v["n"].as_u64();
    let seq: Vec<Call> = v["calls"]
        .as_array()
        .unwrap()
        .iter()
        .map(|c| match c.as_str().unwrap() {
            "Again" => Call::Again,
            "Done" => Call::Done,
            _ => Call::Count,
        })
        .collect();
    run_seq(n, &seq)
}

pub fn run(tier: &str) -> Report {
    let depth = if tier == "thorough" { 10 } else { 8 };
    let mut rep = Report::new("C16", "repeatx");
    rep.rule = "all call sequences over {again, done, count} up to the depth, from finite(0..=3) and infinite(); \
        each sequence is compared call by call with a reference counter; non-trivial = contains at least one again()"
        .into();
    let calls = [Call::Again, Call::Done, Call::Count];
    for n in [Some(0u64), Some(1), Some(2), Some(3), None] {
        let mut layer: Vec<Vec<Call>> = vec![vec![]];
        for _ in 0..depth {
            let mut next = Vec::new();
            for s in &layer {
                for c in calls {
                    let mut t = s.clone();
                    t.push(c);
                    rep.evaluations += 1;
                    rep.transitions += 1;
                    if t.contains(&Call::Again) {
                        rep.distinct_nontrivial += 1;
                    }
                    match run_seq(n, &t) {
                        Ok(()) => next.push(t),
                        Err(m) => {
                            rep.violation(
                                format!("C16/Repeat/{}", if m.contains("panicked") { "panic" } else { "wrong-answer" }),
                                format!("Repeat {n:?} calls {t:?}: {m}"),
                                json!({"engine": "repeatx", "n": n, "calls": t.iter().map(|c| format!("{c:?}")).collect::<Vec<_>>()}),
                            );
                        }
                    }
                }
            }
            layer = next;
        }
        rep.states += layer.len() as u64;
        rep.sample(json!({"start": format!("{n:?}"), "depth": depth, "sequences_at_depth": layer.len()}));
    }
    rep.traces_validated = rep.evaluations;
    rep
}
