//! Registry of blocks under test: how to build each with harness-owned ports,
//! its test vectors, start states, and (where exactly specified) its
//! executable specification.
use rustradio::block::Block;
use rustradio::blocks::*;
use rustradio::stream::{ReadStream, TagValue};
use rustradio::verif;
use rustradio::{Complex, Float};
use vcommon::graphs::{MoveWait, SyncId};
use vcommon::*;

use crate::envcheck::{Spec, Subject};
use crate::envx::*;

pub type InTags = Vec<(usize, String, TagValue)>;

fn bits_of<T: Bits>(v: &[T]) -> Vec<u64> {
    v.iter().map(|x| x.bits()).collect()
}

/// Start states for fat-sample subjects: capacity `cap` per page.
pub fn big_starts(cap: usize) -> Vec<Start> {
    let mut v = vec![Start::plain()];
    if cap >= 2 {
        v.push(Start {
            in_offset: cap - 1,
            out_offset: 1,
            out_prefill: 0,
            pages: 1,
        });
    }
    v.push(Start {
        in_offset: 0,
        out_offset: cap.saturating_sub(1),
        out_prefill: cap - 1,
        pages: 1,
    });
    v.push(Start {
        in_offset: 0,
        out_offset: 0,
        out_prefill: cap,
        pages: 1,
    });
    v
}

/// Start states for native-type subjects with the given capacities.
pub fn native_starts(cap_in: usize, cap_out: usize) -> Vec<Start> {
    vec![
        Start::plain(),
        Start {
            in_offset: cap_in - 1,
            out_offset: cap_out - 2,
            out_prefill: 0,
            pages: 1,
        },
        Start {
            in_offset: cap_in - 2,
            out_offset: cap_out - 1,
            out_prefill: cap_out - 1,
            pages: 1,
        },
        Start {
            in_offset: 3,
            out_offset: 5,
            out_prefill: cap_out - 3,
            pages: 1,
        },
        Start {
            in_offset: 0,
            out_offset: 7,
            out_prefill: cap_out,
            pages: 1,
        },
    ]
}

fn tags_to_atags(tags: &InTags) -> Vec<ATag> {
    tags.iter().map(|(i, k, v)| (*i, k.clone(), format!("{v:?}"))).collect()
}

/// One sample input, one sample output.
#[allow(clippy::too_many_arguments)]
pub fn s11<Ti, To, F>(
    block: &str,
    variant: String,
    quantum: usize,
    data: Vec<Ti>,
    tags: InTags,
    starts: Vec<Start>,
    ref_pages: usize,
    ctor: F,
) -> Subject
where
    Ti: Copy + Send + Sync + 'static,
    To: Copy + Bits + 'static,
    F: Fn(ReadStream<Ti>) -> (Box<dyn Block>, ReadStream<To>) + Send + Sync + 'static,
{
    Subject {
        block: block.into(),
        variant,
        quantum,
        build: Box::new(move |st| {
            verif::clear_stream_specs();
            let (ip, r) = sin(st, data.clone(), tags.clone());
            plan_out(st, 1);
            let (b, o) = ctor(r);
            verif::clear_stream_specs();
            Instance {
                block: b,
                ins: vec![ip],
                outs: vec![sout(st, o)],
            }
        }),
        starts,
        ref_pages,
        spec: None,
        infinite_source: false,
        horizon: 0,
        no_retire_check: false,
        warmup: vec![],
        horizon_delta: 0,
        prefix_spec: false,
        sync_check: false,
    }
}

fn with_spec(mut s: Subject, samples: Vec<Option<Vec<u64>>>, tags: Vec<Option<Vec<ATag>>>) -> Subject {
    s.spec = Some(Spec {
        samples,
        packets: vec![],
        tags,
    });
    s
}

fn bx<B: Block + 'static>(b: B) -> Box<dyn Block> {
    Box::new(b)
}

/// Tag placements for a vector of length n: none, every single position,
/// every pair, and two tags on one sample.
pub fn tag_placements(n: usize, full: bool) -> Vec<InTags> {
    let a = |i: usize| (i, "a".to_string(), TagValue::U64(7));
    let b = |i: usize| (i, "b".to_string(), TagValue::String("x".into()));
    let mut v: Vec<InTags> = vec![vec![]];
    for i in 0..n {
        v.push(vec![a(i)]);
    }
    for i in 0..n {
        v.push(vec![a(i), b(i)]);
    }
    for i in 0..n {
        for j in (i + 1)..n {
            if full || j == i + 1 || (i == 0 && j == n - 1) {
                v.push(vec![a(i), b(j)]);
            }
        }
    }
    v
}

type B = Big2048; // capacity 2 per page
const BCAP: usize = 2;

fn big_vec(n: usize) -> Vec<B> {
    (0..n as u64).map(|i| B::from(10 + i)).collect()
}

fn vals(n: usize) -> Vec<u64> {
    (0..n as u64).map(|i| 10 + i).collect()
}

/// Generic blocks on fat samples. `tagsets` chooses the tag placements (one
/// subject per placement).
pub fn generic_subjects(tagsets: &[InTags]) -> Vec<Subject> {
    let mut v = Vec::new();
    let n = 6;
    for tags in tagsets {
        let tv = format!("n={n} tags={:?}", tags.iter().map(|t| (t.0, t.1.as_str())).collect::<Vec<_>>());
        let ident_tags = Some(tags_to_atags(tags));
        let st = big_starts(BCAP);
        v.push(with_spec(
            s11("AddConst", tv.clone(), 1, big_vec(n), tags.clone(), st.clone(), 8, |r| {
                let (b, o) = AddConst::new(r, B::from(5));
                (bx(b), o)
            }),
            vec![Some(vals(n).iter().map(|x| x + 5).collect())],
            vec![ident_tags.clone()],
        ));
        v.push(with_spec(
            s11("MultiplyConst", tv.clone(), 1, big_vec(n), tags.clone(), st.clone(), 8, |r| {
                let (b, o) = MultiplyConst::new(r, B::from(3));
                (bx(b), o)
            }),
            vec![Some(vals(n).iter().map(|x| x * 3).collect())],
            vec![ident_tags.clone()],
        ));
        v.push(with_spec(
            s11("XorConst", tv.clone(), 1, big_vec(n), tags.clone(), st.clone(), 8, |r| {
                let (b, o) = XorConst::new(r, B::from(0xff));
                (bx(b), o)
            }),
            vec![Some(vals(n).iter().map(|x| x ^ 0xff).collect())],
            vec![ident_tags.clone()],
        ));
        v.push(with_spec(
            s11("Map", tv.clone(), 1, big_vec(n), tags.clone(), st.clone(), 8, |r| {
                let (b, o) = MapBuilder::new(r, |x: B| B::from(x.v * 2 + 1)).name("m").build();
                (bx(b), o)
            }),
            vec![Some(vals(n).iter().map(|x| x * 2 + 1).collect())],
            vec![ident_tags.clone()],
        ));
        v.push(with_spec(
            s11("add_const", tv.clone(), 1, big_vec(n), tags.clone(), st.clone(), 8, |r| {
                let (b, o) = add_const(r, B::from(9));
                (bx(b), o)
            }),
            vec![Some(vals(n).iter().map(|x| x + 9).collect())],
            vec![ident_tags.clone()],
        ));
        for skip in [0usize, 1, 3, 7] {
            let want: Vec<u64> = vals(n).into_iter().skip(skip).collect();
            let wtags: Vec<ATag> = tags_to_atags(tags)
                .into_iter()
                .filter(|t| t.0 >= skip)
                .map(|t| (t.0 - skip, t.1, t.2))
                .collect();
            v.push(with_spec(
                s11("Skip", format!("skip={skip} {tv}"), 1, big_vec(n), tags.clone(), st.clone(), 8, move |r| {
                    let (b, o) = Skip::new(r, skip);
                    (bx(b), o)
                }),
                vec![Some(want)],
                vec![Some(wtags)],
            ));
        }
        for delay in [0usize, 1, 3] {
            let mut want = vec![0u64; delay];
            want.extend(vals(n));
            let wtags: Vec<ATag> = tags_to_atags(tags).into_iter().map(|t| (t.0 + delay, t.1, t.2)).collect();
            v.push(with_spec(
                s11("Delay", format!("delay={delay} {tv}"), 1, big_vec(n), tags.clone(), st.clone(), 8, move |r| {
                    let (b, o) = Delay::new(r, delay);
                    (bx(b), o)
                }),
                vec![Some(want)],
                vec![Some(wtags)],
            ));
        }
        for (i, d) in [(1usize, 1usize), (2, 1), (1, 2), (3, 2), (2, 3), (4, 2), (2, 6)] {
            v.push(with_spec(
                s11(
                    "RationalResampler",
                    format!("interp={i} deci={d} {tv}"),
                    1,
                    big_vec(n),
                    tags.clone(),
                    st.clone(),
                    8,
                    move |r| {
                        let (b, o) = RationalResampler::new(r, i, d).unwrap();
                        (bx(b), o)
                    },
                ),
                vec![Some(specs::resample(&vals(n), i, d))],
                vec![None],
            ));
        }
        // FIR over fat samples: integer arithmetic, so the dot product is exact.
        for (taps, deci) in [(vec![1u64], 1usize), (vec![1, 2], 1), (vec![3u64], 2)] {
            let nt = taps.len();
            let x = vals(n);
            let mut want = vec![];
            // One output per full group of `deci` samples with a full window.
            let nout = if n + 1 > nt { (n - nt + 1) / deci } else { 0 };
            for o in 0..nout {
                let k = o * deci;
                // y[k] = sum_j taps[j] * x[k + nt - 1 - j]
                let mut acc = 0u64;
                for j in 0..nt {
                    acc = acc.wrapping_add(taps[j].wrapping_mul(x[k + nt - 1 - j]));
                }
                want.push(acc);
            }
            // A tag is delivered iff its sample is consumed: the first
            // outputs*deci input samples are.
            let consumed = want.len() * deci;
            let wtags: Vec<ATag> = tags_to_atags(tags)
                .into_iter()
                .filter(|t| t.0 < consumed)
                .map(|t| (t.0 / deci, t.1, t.2))
                .collect();
            let tapsb: Vec<B> = taps.iter().map(|t| B::from(*t)).collect();
            let mut s = s11(
                "FirFilter",
                format!("taps={taps:?} deci={deci} {tv}"),
                nt + deci - 1,
                big_vec(n),
                tags.clone(),
                st.clone(),
                8,
                move |r| {
                    let (b, o) = FirFilterBuilder::new(&tapsb).deci(deci).build(r);
                    (bx(b), o)
                },
            );
            s = with_spec(s, vec![Some(want)], vec![Some(wtags)]);
            v.push(s);
        }
        v.push(with_spec(
            s11("MoveWait(harness)", tv.clone(), 1, big_vec(n), tags.clone(), st.clone(), 8, |r| {
                let (b, o) = MoveWait::new(r);
                (bx(b), o)
            }),
            vec![Some(vals(n))],
            vec![ident_tags.clone()],
        ));
        v.push(with_spec(
            s11("SyncId(harness)", tv.clone(), 1, big_vec(n), tags.clone(), st.clone(), 8, |r| {
                let (b, o) = SyncId::new(r);
                (bx(b), o)
            }),
            vec![Some(vals(n))],
            vec![ident_tags.clone()],
        ));
        // Tee: one input, two outputs.
        {
            let data = big_vec(n);
            let tags2 = tags.clone();
            v.push(Subject {
                block: "Tee".into(),
                variant: tv.clone(),
                quantum: 1,
                build: Box::new(move |st| {
                    verif::clear_stream_specs();
                    let (ip, r) = sin(st, data.clone(), tags2.clone());
                    plan_out(st, 2);
                    let (b, o1, o2) = Tee::new(r);
                    verif::clear_stream_specs();
                    Instance {
                        block: bx(b),
                        ins: vec![ip],
                        outs: vec![sout(st, o1), sout(st, o2)],
                    }
                }),
                starts: st.clone(),
                ref_pages: 8,
                spec: Some(Spec {
                    samples: vec![Some(vals(n)), Some(vals(n))],
                    packets: vec![],
                    tags: vec![ident_tags.clone(), ident_tags.clone()],
                }),
                infinite_source: false,
                horizon: 0,
                no_retire_check: false,
                warmup: vec![],
                horizon_delta: 0,
                prefix_spec: false,
                sync_check: false,
            });
        }
        // Add / Xor: two inputs. Tags follow the first input.
        for which in ["Add", "Xor"] {
            let data = big_vec(n);
            let data2: Vec<B> = (0..n as u64).map(|i| B::from(100 + 3 * i)).collect();
            let tags2 = tags.clone();
            let want: Vec<u64> = (0..n as u64)
                .map(|i| if which == "Add" { (10 + i) + (100 + 3 * i) } else { (10 + i) ^ (100 + 3 * i) })
                .collect();
            v.push(Subject {
                block: which.into(),
                variant: tv.clone(),
                quantum: 1,
                build: Box::new(move |st| {
                    verif::clear_stream_specs();
                    let (ip, r) = sin(st, data.clone(), tags2.clone());
                    let (ip2, r2) = sin(st, data2.clone(), vec![(1, "other".into(), TagValue::Bool(true))]);
                    plan_out(st, 1);
                    let (b, o): (Box<dyn Block>, _) = if which == "Add" {
                        let (b, o) = Add::new(r, r2);
                        (bx(b), o)
                    } else {
                        let (b, o) = Xor::new(r, r2);
                        (bx(b), o)
                    };
                    verif::clear_stream_specs();
                    Instance {
                        block: b,
                        ins: vec![ip, ip2],
                        outs: vec![sout(st, o)],
                    }
                }),
                starts: st.clone(),
                ref_pages: 8,
                spec: Some(Spec {
                    samples: vec![Some(want)],
                    packets: vec![],
                    tags: vec![ident_tags.clone()],
                }),
                infinite_source: false,
                horizon: 0,
                no_retire_check: false,
                warmup: vec![],
                horizon_delta: 0,
                prefix_spec: false,
                sync_check: false,
            });
        }
    }
    v
}

/// Sinks and other blocks without outputs, for the verdict oracle.
pub fn sink_subjects() -> Vec<Subject> {
    let mut v = Vec::new();
    let n = 6;
    for max in [100usize, 3, 0] {
        let data = big_vec(n);
        v.push(Subject {
            block: "VectorSink".into(),
            variant: format!("max={max} n={n}"),
            quantum: 1,
            build: Box::new(move |st| {
                verif::clear_stream_specs();
                let (ip, r) = sin(st, data.clone(), vec![]);
                let b = VectorSink::new(r, max);
                Instance {
                    block: bx(b),
                    ins: vec![ip],
                    outs: vec![],
                }
            }),
            starts: big_starts(BCAP),
            ref_pages: 8,
            spec: None,
            infinite_source: false,
            horizon: 0,
            no_retire_check: false,
            warmup: vec![],
            horizon_delta: 0,
            prefix_spec: false,
            sync_check: false,
        });
    }
    {
        let data = big_vec(n);
        v.push(Subject {
            block: "NullSink".into(),
            variant: format!("n={n}"),
            quantum: 1,
            build: Box::new(move |st| {
                verif::clear_stream_specs();
                let (ip, r) = sin(st, data.clone(), vec![]);
                let b = NullSink::new(r);
                Instance {
                    block: bx(b),
                    ins: vec![ip],
                    outs: vec![],
                }
            }),
            starts: big_starts(BCAP),
            ref_pages: 8,
            spec: None,
            infinite_source: false,
            horizon: 0,
            no_retire_check: false,
            warmup: vec![],
            horizon_delta: 0,
            prefix_spec: false,
            sync_check: false,
        });
    }
    v
}

pub fn all_subjects(prop: &str, thorough: bool) -> Vec<Subject> {
    let tagsets: Vec<InTags> = match prop {
        "C12" => tag_placements(6, thorough),
        _ => vec![vec![(0, "a".into(), TagValue::U64(7)), (4, "b".into(), TagValue::Bool(true))]],
    };
    if prop == "C16" {
        return crate::subjects_src::source_subjects();
    }
    if prop == "C14" {
        // Byte-format sources under back pressure: files larger than the
        // stream, read out in pieces.
        let mut v: Vec<Subject> = crate::subjects_src::source_subjects()
            .into_iter()
            .filter(|s| s.block != "VectorSource" && !s.infinite_source)
            .collect();
        // "Survive read segmentation": the AU codec blocks under every
        // chunking (judged against their one-shot output).
        v.extend(
            crate::subjects_native::native_subjects("C14")
                .into_iter()
                .filter(|s| ["AuEncode", "AuDecode"].contains(&s.block.as_str())),
        );
        return v;
    }
    if prop == "C11" {
        // "all chunkings": the DSP blocks whose one-shot output the dsp engine
        // judges against the definitions must give the same output however
        // the input is chunked.
        return crate::subjects_native::native_subjects("C11")
            .into_iter()
            .filter(|s| {
                ["FirFilter<f32>", "FftFilter", "FftFilterFloat", "Hilbert", "QuadratureDemod", "FastFM", "SinglePoleIirFilter", "FftStream"]
                    .contains(&s.block.as_str())
            })
            .collect();
    }
    if prop == "C19" {
        let mut ts = tag_placements(5, false);
        ts.truncate(if thorough { 12 } else { 6 });
        return crate::subjects_derive::derive_subjects(&ts);
    }
    let mut v = generic_subjects(&tagsets);
    v.extend(crate::subjects_native::native_subjects(prop));
    if prop == "C12" {
        // The vector source adds marker tags.
        v.extend(crate::subjects_src::source_subjects().into_iter().filter(|s| s.block == "VectorSource"));
    }
    if prop == "C09" {
        v.extend(sink_subjects());
        v.extend(crate::subjects_native::endless_sources());
    }
    let _ = (Complex::new(0.0, 0.0), 0.0 as Float);
    v
}
