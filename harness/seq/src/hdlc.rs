//! C13: HDLC deframer against a reference framer and an independent validity
//! checker, over exhaustive small domains: payload lengths and contents, flag
//! arrangements, every short noise preamble, every split point, every 1- and
//! 2-bit corruption.
use rustradio::block::Block;
use rustradio::blocks::HdlcDeframer;
use rustradio::stream::new_stream;
use rustradio::verif;
use serde_json::{Value, json};
use vcommon::specs::*;
use vcommon::*;

#[derive(Clone, Debug)]
pub struct Case {
    pub bits: Vec<u8>,
    pub min: usize,
    pub max: usize,
    pub checksum: bool,
    pub fix: bool,
    /// Chunk sizes; the rest goes in one final piece.
    pub chunks: Vec<usize>,
}

impl Case {
    fn to_json(&self) -> Value {
        json!({"engine":"hdlc","bits": self.bits.iter().map(|b| char::from(b'0' + b)).collect::<String>(),
            "min": self.min, "max": self.max, "checksum": self.checksum, "fix": self.fix, "chunks": self.chunks})
    }
    fn from_json(v: &Value) -> Self {
        Self {
            bits: v["bits"].as_str().unwrap().bytes().map(|b| b - b'0').collect(),
            min: v["min"].as_u64().unwrap() as usize,
            max: v["max"].as_u64().unwrap() as usize,
            checksum: v["checksum"].as_bool().unwrap(),
            fix: v["fix"].as_bool().unwrap(),
            chunks: v["chunks"].as_array().unwrap().iter().map(|x| x.as_u64().unwrap() as usize).collect(),
        }
    }
}

/// Run the real deframer. Err = panic / error.
pub fn run_case(c: &Case) -> Result<Vec<Vec<u8>>, String> {
    verif::clear_stream_specs();
    verif::set_default_stream_size(Some(2 * PAGE));
    let (w, r) = new_stream::<u8>();
    let (mut blk, out) = HdlcDeframer::new(r, c.min, c.max);
    blk.set_checksum(c.checksum);
    blk.set_fix_bits(c.fix);
    let mut got = vec![];
    let mut pos = 0;
    let mut pieces = c.chunks.clone();
    pieces.push(usize::MAX);
    for p in pieces {
        let n = p.min(c.bits.len() - pos);
        if n > 0 {
            let mut wb = w.write_buf().map_err(|e| format!("{e}"))?;
            wb.slice()[..n].copy_from_slice(&c.bits[pos..pos + n]);
            wb.produce(n, &[]);
            pos += n;
        }
        for _ in 0..4 {
            let r = catch(|| blk.work().map(|_| ()));
            match r {
                Err(p) => return Err(format!("panic: {p}")),
                Ok(Err(e)) => return Err(format!("error: {e}")),
                Ok(Ok(())) => {}
            }
            if w.free() == 2 * PAGE {
                break;
            }
        }
        while let Some((v, _)) = out.pop() {
            got.push(v);
        }
        if pos == c.bits.len() {
            break;
        }
    }
    Ok(got)
}

/// Independent validity check: is there a flag-delimited, abort-free region
/// of the bit stream that destuffs to exactly these bytes (within `dist` bit
/// flips of the data part when fixing is on)?
fn regions(bits: &[u8]) -> Vec<Vec<u8>> {
    // All flag positions, at any alignment.
    let flags: Vec<usize> = (0..bits.len().saturating_sub(7)).filter(|i| bits[*i..*i + 8] == FLAG).collect();
    let mut out = vec![];
    for (a, fa) in flags.iter().enumerate() {
        for fb in flags.iter().skip(a + 1) {
            // Region between the end of flag a and the start of flag b. The
            // closing flag may share its first 0 with... no: flags are whole.
            let start = fa + 8;
            if *fb < start {
                // Overlapping flags sharing the zero: 0111111 0 1111110.
                if *fb + 1 == start {
                    // empty region sharing a 0 bit: not a frame.
                }
                continue;
            }
            let body = &bits[start..*fb];
            // Abort-free and no flag inside: no run of six or more ones.
            let mut ones = 0;
            let mut ok = true;
            let mut de = vec![];
            for b in body {
                if *b == 1 {
                    ones += 1;
                    if ones >= 6 {
                        ok = false;
                        break;
                    }
                    de.push(1);
                } else {
                    if ones == 5 {
                        // stuffed zero
                    } else {
                        de.push(0);
                    }
                    ones = 0;
                }
            }
            // A body ending in five ones followed directly by the flag's 0 is
            // ambiguous (that 0 reads as a stuffed bit); the closing flag is
            // then not recognised. Exclude.
            if ok && ones < 5 && de.len() % 8 == 0 {
                let bytes: Vec<u8> = de.chunks(8).map(|c| c.iter().enumerate().fold(0u8, |a, (i, b)| a | (b << i))).collect();
                out.push(bytes);
            }
        }
    }
    out
}

fn valid(bits: &[u8], p: &[u8], checksum: bool, fix: bool) -> bool {
    for r in regions(bits) {
        if !checksum {
            if r == p {
                return true;
            }
            continue;
        }
        if r.len() < 2 || r.len() - 2 != p.len() {
            continue;
        }
        let (d, c) = r.split_at(r.len() - 2);
        let c = u16::from_le_bytes([c[0], c[1]]);
        if crc16_x25(p) != c {
            continue;
        }
        let dist: u32 = d.iter().zip(p).map(|(a, b)| (a ^ b).count_ones()).sum();
        if dist == 0 || (fix && dist <= 1) {
            return true;
        }
    }
    false
}

fn payloads(maxlen: usize, rich: bool) -> Vec<Vec<u8>> {
    let alpha = [0x00u8, 0xff, 0x7e, 0x3f, 0xaa, 0x55];
    let mut v: Vec<Vec<u8>> = vec![vec![]];
    for a in alpha {
        v.push(vec![a]);
    }
    if rich {
        for a in alpha {
            for b in alpha {
                v.push(vec![a, b]);
            }
        }
    } else {
        v.push(vec![0xff, 0x7e]);
        v.push(vec![0x3f, 0xff]);
        v.push(vec![0x00, 0x55]);
    }
    for l in 3..=maxlen {
        v.push(vec![0xff; l]);
        v.push(vec![0x7e; l]);
        v.push((0..l).map(|i| (i as u8).wrapping_mul(0x3f) ^ 0x1f).collect());
        v.push((0..l).map(|i| if i % 2 == 0 { 0x3f } else { 0xfc }).collect());
    }
    v
}

fn all_bitstrings(maxlen: usize) -> Vec<Vec<u8>> {
    let mut v = vec![vec![]];
    for l in 1..=maxlen {
        for x in 0..(1u32 << l) {
            v.push((0..l).map(|i| ((x >> i) & 1) as u8).collect());
        }
    }
    v
}

pub fn replay_json(v: &Value) -> Result<(), String> {
    let c = Case::from_json(v);
    let want: Option<Vec<Vec<u8>>> = v.get("want").and_then(|w| w.as_array()).map(|a| {
        a.iter().map(|p| p.as_array().unwrap().iter().map(|b| b.as_u64().unwrap() as u8).collect()).collect()
    });
    let got = run_case(&c)?;
    if let Some(w) = want {
        if got != w {
            return Err(format!("got {got:02x?}, want {w:02x?}"));
        }
    }
    if let Some(m) = v.get("must_contain").and_then(|m| m.as_array()) {
        let m: Vec<u8> = m.iter().map(|b| b.as_u64().unwrap() as u8).collect();
        if !got.contains(&m) {
            return Err(format!("got {got:02x?}, the frame {m:02x?} is missing"));
        }
        return Ok(());
    }
    for p in &got {
        if !valid(&c.bits, p, c.checksum, c.fix) {
            return Err(format!("emitted {p:02x?}, which no flag-delimited region of the input encodes"));
        }
    }
    Ok(())
}

pub fn run(tier: &str, shard: Option<&str>) -> Report {
    let thorough = tier == "thorough";
    let mut rep = Report::new("C13", "hdlc");
    rep.rule = "cases = (size limits) x (payload length 0..max+2, contents over {00,FF,7E,3F,AA,55} and stuffing-heavy \
        patterns) x (flag arrangement) x (every noise preamble up to 6 bits) x (every split of the bit stream into two \
        or three pieces); plus every 1-bit and 2-bit corruption of a framed payload with bit fixing off and on; each \
        case is distinct by its bit string, limits and chunking; all but the empty stream are non-trivial"
        .into();
    rep.assumptions = vec![
        "size limits count the frame bytes between the flags, including the two CRC bytes when the checksum is on, min <= len <= max inclusive".into(),
        "at least two flags precede the first frame when noise bits come first".into(),
    ];
    let (si, sn) = match shard {
        Some(s) => {
            let (a, b) = s.split_once('/').unwrap();
            (a.parse::<usize>().unwrap(), b.parse::<usize>().unwrap())
        }
        None => (0, 1),
    };
    let mut k = 0usize;
    let mut emit = |rep: &mut Report, clause: &str, msg: String, c: &Case, want: Option<&Vec<Vec<u8>>>| {
        let mut r = c.to_json();
        if let Some(w) = want {
            r["want"] = json!(w);
        }
        rep.violation(format!("C13/HdlcDeframer/{clause}"), msg, r);
    };
    let emit_contain = |rep: &mut Report, must: &Vec<u8>, clause: &str, msg: String, c: &Case, _w: Option<&Vec<Vec<u8>>>| {
        let mut r = c.to_json();
        r["must_contain"] = json!(must);
        rep.violation(format!("C13/HdlcDeframer/{clause}"), msg, r);
    };
    let mut check = |rep: &mut Report, c: &Case, want: Option<&Vec<Vec<u8>>>| {
        rep.evaluations += 1;
        rep.distinct_nontrivial += 1;
        match run_case(c) {
            Err(m) => emit(rep, if m.starts_with("panic") { "panic" } else { "error" }, format!("{}: {m}", c.to_json()), c, want),
            Ok(got) => {
                // With the checksum off and min_size 0, two adjacent flags
                // delimit a (valid, if useless) empty frame.
                let got: Vec<Vec<u8>> = if !c.checksum && c.min == 0 {
                    got.into_iter().filter(|p| !p.is_empty()).collect()
                } else {
                    got
                };
                if let Some(w) = want {
                    if &got != w {
                        let clause = if got.len() < w.len() {
                            "frame-lost"
                        } else if got.len() > w.len() {
                            "extra-frame"
                        } else {
                            "wrong-payload"
                        };
                        emit(rep, clause, format!("{}: got {got:02x?}, want {w:02x?}", c.to_json()), c, want);
                        return;
                    }
                }
                for p in &got {
                    if !valid(&c.bits, p, c.checksum, c.fix) {
                        emit(
                            rep,
                            "invalid-frame-emitted",
                            format!("{}: emitted {p:02x?}, which no flag-delimited region of the input encodes", c.to_json()),
                            c,
                            want,
                        );
                        return;
                    }
                }
            }
        }
    };
    let limits: Vec<(usize, usize)> = vec![(0, 4), (1, 4), (2, 6), (3, 5), (10, 20)];
    let noise = all_bitstrings(if thorough { 6 } else { 4 });
    for &(min, max) in &limits {
        for checksum in [true, false] {
            let over = if checksum { 2 } else { 0 };
            // Payload lengths such that the frame length runs 0..max+2.
            let maxpl = (max + 2).saturating_sub(over);
            let pls: Vec<Vec<u8>> = payloads(maxpl.min(if thorough { 22 } else { 9 }), thorough)
                .into_iter()
                .filter(|p| max < 10 || p.len() + over + 3 >= min || p.len() < 3)
                .collect();
            for p in &pls {
                let flen = p.len() + over;
                let inb = flen >= min && flen <= max && (!checksum || flen >= 2) && flen > 0;
                // A second frame that is always in bounds, to see that nothing
                // disturbs the following frame.
                let second: Vec<u8> = (0..(min.max(over + 1) - over).max(1)).map(|i| 0x11 + i as u8).collect();
                let second_ok = second.len() + over >= min && second.len() + over <= max;
                for (pre, between) in [(1usize, 1usize), (2, 2), (1, 3)] {
                    let mut frames = vec![p.clone()];
                    if second_ok {
                        frames.push(second.clone());
                    }
                    // Out of bounds frames are only required not to disturb the
                    // next one if a separate flag follows.
                    if !inb && between < 2 && second_ok {
                        continue;
                    }
                    let bits = hdlc_stream(&frames, checksum, pre, between);
                    let mut want: Vec<Vec<u8>> = vec![];
                    if inb {
                        want.push(p.clone());
                    }
                    if second_ok {
                        want.push(second.clone());
                    }
                    // Every split into two pieces; some into three.
                    let n = bits.len();
                    let mut chunkings: Vec<Vec<usize>> = vec![vec![]];
                    let step = if thorough { 1 } else { 1 };
                    for a in (1..n).step_by(step) {
                        chunkings.push(vec![a]);
                    }
                    if thorough || p.len() <= 1 {
                        for a in (1..n).step_by(5) {
                            for b in (1..(n - a)).step_by(7) {
                                chunkings.push(vec![a, b]);
                            }
                        }
                    }
                    for ch in chunkings {
                        k += 1;
                        if k % sn != si {
                            continue;
                        }
                        let c = Case { bits: bits.clone(), min, max, checksum, fix: false, chunks: ch };
                        check(&mut rep, &c, Some(&want));
                    }
                }
                // Noise preambles, with two flags before the frame.
                if p.len() <= 2 || thorough {
                    for nz in &noise {
                        k += 1;
                        if k % sn != si {
                            continue;
                        }
                        let mut bits = nz.clone();
                        bits.extend(hdlc_stream(&[p.clone()], checksum, 2, 1));
                        // Noise may itself contain (part of) a frame: then
                        // only validity is required, plus recovery of ours.
                        let c = Case { bits, min, max, checksum, fix: false, chunks: vec![nz.len() + 3] };
                        rep.evaluations += 1;
                        rep.distinct_nontrivial += 1;
                        match run_case(&c) {
                            Err(m) => emit(&mut rep, if m.starts_with("panic") { "panic" } else { "error" }, format!("{}: {m}", c.to_json()), &c, None),
                            Ok(got) => {
                                if inb && !got.contains(p) {
                                    emit_contain(&mut rep, p, "frame-lost-after-noise", format!("{}: got {got:02x?}, frame {p:02x?} missing", c.to_json()), &c, None);
                                }
                                for q in &got {
                                    if !valid(&c.bits, q, checksum, false) {
                                        emit(&mut rep, "invalid-frame-emitted", format!("{}: emitted {q:02x?}", c.to_json()), &c, None);
                                    }
                                }
                            }
                        }
                    }
                }
            }
        }
    }
    // Long streams: more bits in one delivery than any per-call budget a
    // block might have (thousands), all at once and in large pieces.
    if si == 0 {
        let many: Vec<Vec<u8>> = (0..40u8)
            .map(|i| (0..(2 + i % 7)).map(|j| [0x00u8, 0xff, 0x7e, 0x3f, 0xaa, 0x55, i][((i + j) % 7) as usize]).collect())
            .collect();
        let bits = hdlc_stream(&many, true, 3, 1);
        for chunks in [vec![], vec![1000], vec![1024], vec![1025], vec![1500], vec![2048], vec![3000], vec![7, 2000]] {
            let c = Case { bits: bits.clone(), min: 2, max: 20, checksum: true, fix: false, chunks };
            rep.evaluations += 1;
            rep.distinct_nontrivial += 1;
            match run_case(&c) {
                Err(m) => emit(&mut rep, if m.starts_with("panic") { "panic" } else { "error" }, format!("long stream, chunks {:?}: {m}", c.chunks), &c, Some(&many)),
                Ok(got) if got != many => emit(
                    &mut rep,
                    "frame-lost",
                    format!("{} bits with 40 frames, chunks {:?}: got {} frames", bits.len(), c.chunks, got.len()),
                    &c,
                    Some(&many),
                ),
                Ok(_) => {}
            }
        }
        let mut idle = vec![];
        for _ in 0..200 {
            idle.extend(FLAG);
        }
        idle.extend(hdlc_stream(&[vec![0x11, 0x22, 0x33]], true, 1, 1));
        let want = vec![vec![0x11u8, 0x22, 0x33]];
        let c = Case { bits: idle, min: 2, max: 20, checksum: true, fix: false, chunks: vec![] };
        rep.evaluations += 1;
        rep.distinct_nontrivial += 1;
        match run_case(&c) {
            Err(m) => emit(&mut rep, if m.starts_with("panic") { "panic" } else { "error" }, format!("200 idle flags then a frame: {m}"), &c, Some(&want)),
            Ok(got) if got != want => emit(&mut rep, "frame-lost", format!("200 idle flags then a frame, delivered at once: got {got:02x?}"), &c, Some(&want)),
            Ok(_) => {}
        }
    }
    // Corruption: every single flip, every pair of flips.
    for payload in [vec![0x12u8, 0x7e, 0xff], vec![0x00, 0x00, 0x00], vec![0xaa, 0x3f, 0x55]] {
        let bits = hdlc_stream(&[payload.clone()], true, 2, 2);
        let n = bits.len();
        for fix in [false, true] {
            for i in 0..n {
                for j in i..n {
                    if !thorough && j != i && (j - i > 24) && (i * 7 + j) % 5 != 0 {
                        continue;
                    }
                    k += 1;
                    if k % sn != si {
                        continue;
                    }
                    let mut b = bits.clone();
                    b[i] ^= 1;
                    if j != i {
                        b[j] ^= 1;
                    }
                    let c = Case { bits: b, min: 2, max: 10, checksum: true, fix, chunks: vec![] };
                    rep.evaluations += 1;
                    rep.distinct_nontrivial += 1;
                    match run_case(&c) {
                        Err(m) => emit(&mut rep, if m.starts_with("panic") { "panic" } else { "error" }, format!("{}: {m}", c.to_json()), &c, None),
                        Ok(got) => {
                            for q in &got {
                                // The original is acceptable as a repair
                                // (fixing on); with fixing off only when a
                                // region with a verifying CRC still exists
                                // (the flips hit flags or padding).
                                if q == &payload && fix {
                                    continue;
                                }
                                if !valid(&c.bits, q, true, fix) {
                                    emit(
                                        &mut rep,
                                        "corrupt-frame-emitted",
                                        format!("{} (flips at {i},{j} of frame {payload:02x?}): emitted {q:02x?}", c.to_json()),
                                        &c,
                                        None,
                                    );
                                }
                            }
                            if j == i && got.iter().any(|q| q != &payload) && fix {
                                // single flip + fixing: original or nothing
                                // (anything else was already judged above).
                            }
                        }
                    }
                }
            }
        }
    }
    // A frame corrupted in its body (flags intact) must not disturb the valid
    // frame that follows it, with a shared flag or separate ones.
    for first in [vec![0x12u8, 0x7e, 0xff, 0x01], vec![0x55u8; 3]] {
        let good = vec![0xa5u8, 0x3c];
        for between in [1usize, 2] {
            let mut bits = FLAG.to_vec();
            let body = hdlc_body(&first, true);
            let body_at = bits.len();
            bits.extend(&body);
            for _ in 0..between {
                bits.extend(FLAG);
            }
            bits.extend(hdlc_body(&good, true));
            bits.extend(FLAG);
            for i in 0..body.len() {
                for j in i..body.len() {
                    if !thorough && j != i && (i + j) % 3 != 0 {
                        continue;
                    }
                    k += 1;
                    if k % sn != si {
                        continue;
                    }
                    let mut b = bits.clone();
                    b[body_at + i] ^= 1;
                    if j != i {
                        b[body_at + j] ^= 1;
                    }
                    // A flip in the last bits of the body can merge with a
                    // single shared flag (two flags sharing a 0 are not two
                    // flags for this deframer): then a second flag is needed.
                    if between == 1 && j + 8 >= body.len() {
                        continue;
                    }
                    for fix in [false, true] {
                        let c = Case { bits: b.clone(), min: 2, max: 10, checksum: true, fix, chunks: vec![] };
                        rep.evaluations += 1;
                        rep.distinct_nontrivial += 1;
                        match run_case(&c) {
                            Err(m) => emit(&mut rep, if m.starts_with("panic") { "panic" } else { "error" }, format!("{}: {m}", c.to_json()), &c, None),
                            Ok(got) => {
                                if !got.contains(&good) {
                                    emit_contain(
                                        &mut rep,
                                        &good,
                                        "frame-lost-after-bad-frame",
                                        format!("{} (flips at body bits {i},{j} of the first frame): got {got:02x?}, the valid frame {good:02x?} after it is missing", c.to_json()),
                                        &c,
                                        None,
                                    );
                                }
                                for q in &got {
                                    if q != &good && q != &first && !valid(&c.bits, q, true, fix) {
                                        emit(&mut rep, "corrupt-frame-emitted", format!("{}: emitted {q:02x?}", c.to_json()), &c, None);
                                    }
                                }
                            }
                        }
                    }
                }
            }
        }
    }
    // Two corrupted frames in a row: a longer one that cannot be repaired
    // (two flips), then a shorter one with a single flip. Whatever comes out
    // has to be a frame that is really there (or its one-bit repair).
    if si == 0 {
        let first = vec![0x48u8, 0x50, 0x21, 0x22, 0x24, 0x28, 0x11, 0x12, 0x14];
        let second = vec![0x51u8, 0x52, 0x54];
        let b1 = hdlc_body(&first, true);
        let b2 = hdlc_body(&second, true);
        for between in [1usize, 2] {
            for (f1a, f1b) in [(3usize, 40usize), (10, 11), (0, 70)] {
                for f2 in (0..b2.len().saturating_sub(9)).step_by(if thorough { 1 } else { 3 }) {
                    for fix in [false, true] {
                        let mut bits = FLAG.to_vec();
                        let at1 = bits.len();
                        bits.extend(&b1);
                        for _ in 0..between {
                            bits.extend(FLAG);
                        }
                        let at2 = bits.len();
                        bits.extend(&b2);
                        bits.extend(FLAG);
                        bits[at1 + f1a] ^= 1;
                        bits[at1 + f1b] ^= 1;
                        bits[at2 + f2] ^= 1;
                        let c = Case { bits, min: 2, max: 20, checksum: true, fix, chunks: vec![] };
                        rep.evaluations += 1;
                        rep.distinct_nontrivial += 1;
                        match run_case(&c) {
                            Err(m) => emit(&mut rep, if m.starts_with("panic") { "panic" } else { "error" }, format!("{}: {m}", c.to_json()), &c, None),
                            Ok(got) => {
                                for q in &got {
                                    if !valid(&c.bits, q, true, fix) {
                                        emit(
                                            &mut rep,
                                            "corrupt-frame-emitted",
                                            format!("{} (two corrupted frames, flips at {f1a},{f1b} and {f2}): emitted {q:02x?}", c.to_json()),
                                            &c,
                                            None,
                                        );
                                    }
                                }
                            }
                        }
                    }
                }
            }
        }
    }
    rep.states = rep.evaluations;
    rep.transitions = rep.evaluations;
    rep.traces_validated = rep.evaluations;
    rep.sample(json!({"example": "two frames, shared flag, split after 13 bits", "min": 2, "max": 6}));
    rep
}
