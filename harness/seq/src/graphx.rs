//! E4: bounded enumeration of programs for the single-threaded runner (C06).
//!
//! Every graph of a declared family, in every add order, over a grid of
//! source lengths and stream sizes, is run on the real `Graph::run` and
//! compared with the reference result.
use rustradio::block::Block;
use rustradio::graph::{Graph, GraphRunner};
use rustradio::verif;
use serde_json::json;
use vcommon::graphs::*;
use vcommon::*;

fn perms(n: usize) -> Vec<Vec<usize>> {
    fn rec(cur: &mut Vec<usize>, used: &mut Vec<bool>, n: usize, out: &mut Vec<Vec<usize>>) {
        if cur.len() == n {
            out.push(cur.clone());
            return;
        }
        for i in 0..n {
            if !used[i] {
                used[i] = true;
                cur.push(i);
                rec(cur, used, n, out);
                cur.pop();
                used[i] = false;
            }
        }
    }
    let mut out = vec![];
    rec(&mut vec![], &mut vec![false; n], n, &mut out);
    out
}

fn run_typed<T: BigT>(g: &GraphSpec) -> Result<(), (String, String)> {
    verif::clear_stream_specs();
    verif::set_default_stream_size(Some(g.pages * PAGE));
    let Built { blocks, sinks } = build::<T>(g);
    let mut slots: Vec<Option<Box<dyn Block + Send>>> = blocks.into_iter().map(Some).collect();
    let mut graph = Graph::new();
    for &i in &g.order {
        graph.add(slots[i].take().unwrap());
    }
    let r = catch(|| graph.run());
    let results = |sinks: &Vec<rustradio::vector_sink::Hook<T>>| -> Vec<Vec<u64>> {
        sinks.iter().map(|h| h.data().samples().iter().map(|s| s.val()).collect()).collect()
    };
    match r {
        Err(p) => return Err(("run-panicked".into(), format!("Graph::run panicked: {p}"))),
        Ok(Err(e)) => return Err(("run-failed".into(), format!("Graph::run returned an error: {e}"))),
        Ok(Ok(())) => {}
    }
    let got = results(&sinks);
    let want = g.expected();
    // Quiescence: give every block one more chance. Nothing may move.
    let a0 = verif::activity();
    let r2 = catch(|| graph.run());
    let moved = verif::activity() - a0;
    if got != want {
        return Err((
            "wrong-result".into(),
            format!(
                "run() returned with sinks {got:?}, reference result is {want:?}{}",
                if moved > 0 { " (and blocks could still move data when called again)" } else { "" }
            ),
        ));
    }
    if moved > 0 {
        return Err((
            "not-quiescent".into(),
            format!("run() returned although calling the blocks again moved {moved} more samples"),
        ));
    }
    if !matches!(r2, Ok(Ok(()))) {
        return Err(("second-run-failed".into(), "running the finished graph again failed".into()));
    }
    if sinks.iter().any(|h| h.data().samples().iter().any(|s| *s != T::from(s.val()))) {
        return Err(("torn-sample".into(), "a sink holds a torn sample".into()));
    }
    Ok(())
}

pub fn run_one(g: &GraphSpec) -> Result<(), (String, String)> {
    match g.per_page {
        1 => run_typed::<Big4096>(g),
        2 => run_typed::<Big2048>(g),
        _ => run_typed::<Big1024>(g),
    }
}

fn order_class(order: &[usize]) -> &'static str {
    if order.windows(2).all(|w| w[0] < w[1]) {
        "topological-order"
    } else if order.windows(2).all(|w| w[0] > w[1]) {
        "reverse-order"
    } else {
        "mixed-order"
    }
}

fn shape_name(s: &Shape) -> String {
    match s {
        Shape::Chain(st) => format!("chain{st:?}").replace(' ', ""),
        Shape::Tee(a, b) => format!("tee({a:?},{b:?})").replace(' ', ""),
        Shape::Diamond(a, b) => format!("diamond({a:?},{b:?})").replace(' ', ""),
        Shape::Merge(n) => format!("merge({n})"),
        Shape::Packets(k) => format!("packets({k})"),
        Shape::PacketsTail(k, t) => format!("packets({k},tail={t})"),
        Shape::ToFile => "tofile".into(),
        Shape::VecPackets(v) => format!("vecpackets{v:?}").replace(' ', ""),
    }
}

pub fn shapes(thorough: bool) -> Vec<Shape> {
    let stages = vec![
        Stage::AddConst(1),
        Stage::Skip(1),
        Stage::Delay(2),
        Stage::Resamp(2, 1),
        Stage::Resamp(1, 2),
        Stage::Resamp(2, 3),
        Stage::MoveWait,
        Stage::SyncId,
        Stage::MoveWaitFunc,
        Stage::Fir(2),
    ];
    let mut v = vec![Shape::Chain(vec![])];
    for s in &stages {
        v.push(Shape::Chain(vec![s.clone()]));
    }
    // Two-stage chains.
    let pairs: Vec<(Stage, Stage)> = if thorough {
        let mut p = vec![];
        for a in &stages {
            for b in &stages {
                p.push((a.clone(), b.clone()));
            }
        }
        p
    } else {
        vec![
            (Stage::Resamp(2, 1), Stage::Resamp(1, 2)),
            (Stage::Resamp(1, 2), Stage::Resamp(2, 1)),
            (Stage::MoveWait, Stage::AddConst(1)),
            (Stage::Skip(1), Stage::Delay(2)),
            (Stage::Resamp(2, 1), Stage::MoveWait),
            (Stage::MoveWaitFunc, Stage::Resamp(1, 2)),
            (Stage::Fir(2), Stage::Fir(3)),
            (Stage::Resamp(2, 1), Stage::Fir(3)),
        ]
    };
    for (a, b) in pairs {
        v.push(Shape::Chain(vec![a, b]));
    }
    if thorough {
        v.push(Shape::Chain(vec![Stage::Resamp(2, 1), Stage::MoveWait, Stage::Resamp(1, 2)]));
    }
    v.push(Shape::Tee(None, None));
    v.push(Shape::Tee(Some(Stage::Resamp(2, 1)), Some(Stage::Skip(1))));
    v.push(Shape::Diamond(None, None));
    v.push(Shape::Diamond(Some(Stage::AddConst(1)), Some(Stage::MoveWait)));
    v.push(Shape::Merge(3));
    v.push(Shape::Packets(2));
    v.push(Shape::PacketsTail(1, 1));
    v.push(Shape::PacketsTail(2, 2));
    v.push(Shape::VecPackets(vec![1, 2, 1]));
    v.push(Shape::VecPackets(vec![2, 2]));
    v
}

pub fn replay_json(v: &serde_json::Value) -> Result<(), String> {
    let g = GraphSpec::from_json(&v["graph"]);
    run_one(&g).map_err(|(c, m)| format!("[{c}] {m}"))
}

pub fn run(tier: &str, shard: Option<&str>) -> Report {
    let thorough = tier == "thorough";
    let mut rep = Report::new("C06", "graphx");
    rep.rule = "programs = (graph shape from a declared family) x (every permutation of the add order) x (source length) x \
        (stream size in pages) x (samples per page); each is run on the real Graph::run with virtual time; a program is \
        non-trivial if its add order is not the topological one; distinct by its full description"
        .into();
    rep.assumptions = vec![
        "reference result comes from executable specifications of the menu blocks".into(),
        "menu blocks have no open chunking/verdict finding (C08/C09)".into(),
    ];
    let (si, sn) = match shard {
        Some(s) => {
            let (a, b) = s.split_once('/').unwrap();
            (a.parse::<usize>().unwrap(), b.parse::<usize>().unwrap())
        }
        None => (0, 1),
    };
    let mut k = 0usize;
    let mut programs = 0u64;
    let mut nontrivial = 0u64;
    for shape in shapes(thorough) {
        for per_page in [1usize, 2, 4] {
            for pages in if thorough { vec![1usize, 2, 3] } else { vec![1usize, 2] } {
                let cap = per_page * pages;
                let mut lens = vec![0usize, 1, cap.saturating_sub(1), cap, cap + 1, 2 * cap + 1, 3 * cap + 2];
                lens.sort();
                lens.dedup();
                if !thorough && per_page == 4 && pages == 2 {
                    continue;
                }
                for (src_len, file_repeat, vec_repeat) in lens
                    .iter()
                    .map(|l| (*l, 0u64, 0u64))
                    .chain(if matches!(shape, Shape::Chain(_)) {
                        vec![(1usize, 2u64, 0u64), (cap + 1, 2, 0), (cap, 3, 0), (2, 1, 0), (1, 0, 2), (1, 0, 3), (2, 0, 2), (cap + 1, 0, 2)]
                    } else {
                        vec![]
                    })
                    .collect::<Vec<_>>()
                {
                    let probe = GraphSpec {
                        shape: shape.clone(),
                        per_page,
                        pages,
                        src_len,
                        file_repeat,
                        vec_repeat,
                        order: vec![],
                    };
                    if probe.degenerate() {
                        continue;
                    }
                    let n = probe.nblocks();
                    let orders = if n <= 5 || thorough { perms(n) } else { perms(n).into_iter().step_by(7).collect() };
                    for order in orders {
                        k += 1;
                        if k % sn != si {
                            continue;
                        }
                        let g = GraphSpec {
                            order,
                            ..probe.clone()
                        };
                        programs += 1;
                        if order_class(&g.order) != "topological-order" {
                            nontrivial += 1;
                        }
                        if let Err((clause, msg)) = run_one(&g) {
                            rep.violation(
                                format!("C06/{}/{clause}/{}", shape_name(&g.shape), order_class(&g.order)),
                                format!("{}: {msg}", g.to_json()),
                                json!({"engine": "graphx", "graph": g.to_json()}),
                            );
                        }
                        if rep.samples.len() < 5 && programs % 211 == 7 {
                            rep.sample(g.to_json());
                        }
                    }
                }
            }
        }
    }
    rep.evaluations = programs;
    rep.distinct_nontrivial = nontrivial;
    rep.states = programs;
    rep.transitions = programs;
    rep.traces_validated = programs;
    rep.set("programs", json!(programs));
    rep
}
