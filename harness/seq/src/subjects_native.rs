//! Subjects on native sample types (u8 / f32 / Complex): these streams hold
//! 4096 / 1024 / 512 samples per page, so "output nearly full" and "window at
//! the wrap point" come from pre-positioned streams.
use rustradio::block::Block;
use rustradio::blocks::*;
use rustradio::stream::TagValue;
use rustradio::verif::{self, StreamSpec};
use rustradio::{Complex, Float};
use vcommon::specs;
use vcommon::*;

use crate::envcheck::{Spec, Subject};
use crate::envx::*;
use crate::subjects::{InTags, native_starts, s11};

const CU8: usize = 4096;
const CF: usize = 1024;
const CC: usize = 512;

fn bx<B: Block + 'static>(b: B) -> Box<dyn Block> {
    Box::new(b)
}

fn fb(v: &[f32]) -> Vec<u64> {
    v.iter().map(|x| x.to_bits() as u64).collect()
}
fn cb(v: &[Complex]) -> Vec<u64> {
    v.iter().map(|x| x.bits()).collect()
}
fn ub(v: &[u8]) -> Vec<u64> {
    v.iter().map(|x| *x as u64).collect()
}

fn with_samples(mut s: Subject, samples: Vec<u64>) -> Subject {
    s.spec = Some(Spec {
        samples: vec![Some(samples)],
        packets: vec![],
        tags: vec![None],
    });
    s
}

fn with_samples_tags(mut s: Subject, samples: Vec<u64>, tags: Vec<ATag>) -> Subject {
    s.spec = Some(Spec {
        samples: vec![Some(samples)],
        packets: vec![],
        tags: vec![Some(tags)],
    });
    s
}

fn atags(tags: &InTags) -> Vec<ATag> {
    tags.iter().map(|(i, k, v)| (*i, k.clone(), format!("{v:?}"))).collect()
}

pub fn test_bits(n: usize) -> Vec<u8> {
    // Deterministic "random looking" bits with runs.
    let mut x: u32 = 0xACE1;
    (0..n)
        .map(|_| {
            x ^= x << 13;
            x ^= x >> 17;
            x ^= x << 5;
            (x & 1) as u8
        })
        .collect()
}

pub fn test_floats(n: usize) -> Vec<f32> {
    // A square-ish wave with varying amplitudes: sign changes every 4 samples.
    (0..n)
        .map(|i| {
            let s = if (i / 4) % 2 == 0 { 1.0 } else { -1.0 };
            s * (0.25 + 0.125 * ((i * 7) % 5) as f32)
        })
        .collect()
}

pub fn test_complex(n: usize) -> Vec<Complex> {
    (0..n)
        .map(|i| {
            let p = i as f32 * 0.7;
            Complex::new(p.cos() * (1.0 + 0.1 * (i % 3) as f32), p.sin())
        })
        .collect()
}

/// A packet-output block with one sample input.
fn s1p<Ti, To, F>(
    block: &str,
    variant: String,
    quantum: usize,
    data: Vec<Ti>,
    tags: InTags,
    starts: Vec<Start>,
    ctor: F,
) -> Subject
where
    Ti: Copy + Send + Sync + 'static,
    To: Bits + 'static,
    F: Fn(rustradio::stream::ReadStream<Ti>) -> (Box<dyn Block>, rustradio::stream::NCReadStream<Vec<To>>)
        + Send
        + Sync
        + 'static,
{
    Subject {
        block: block.into(),
        variant,
        quantum,
        build: Box::new(move |st| {
            verif::clear_stream_specs();
            let (ip, r) = sin(st, data.clone(), tags.clone());
            let (b, o) = ctor(r);
            verif::clear_stream_specs();
            Instance {
                block: b,
                ins: vec![ip],
                outs: vec![pout(o)],
            }
        }),
        starts,
        ref_pages: 1,
        spec: None,
        infinite_source: false,
        horizon: 0,
        no_retire_check: false,
        warmup: vec![],
        horizon_delta: 0,
        prefix_spec: false,
        sync_check: false,
    }
}

fn with_packets(mut s: Subject, packets: Vec<Vec<u64>>) -> Subject {
    s.spec = Some(Spec {
        samples: vec![None],
        packets: vec![Some(packets)],
        tags: vec![None],
    });
    s
}

pub fn native_subjects(prop: &str) -> Vec<Subject> {
    let mut v: Vec<Subject> = Vec::new();
    let tags: InTags = if prop == "C12" {
        vec![(2, "a".into(), TagValue::U64(7)), (9, "b".into(), TagValue::Bool(true))]
    } else {
        vec![(1, "a".into(), TagValue::U64(7))]
    };
    let id_tags = atags(&tags);

    // ---- bit-wise blocks (u8 -> u8)
    let bits = test_bits(24);
    let st8 = native_starts(CU8, CU8);
    v.push(with_samples_tags(
        s11("NrziDecode", "24 bits".into(), 1, bits.clone(), tags.clone(), st8.clone(), 1, |r| {
            let (b, o) = NrziDecode::new(r);
            (bx(b), o)
        }),
        ub(&specs::nrzi_decode(&bits)),
        id_tags.clone(),
    ));
    for (mask, seed, len) in [(0x21u64, 0u64, 16u8), (0x3, 0, 2), (0x9, 5, 4)] {
        v.push(with_samples_tags(
            s11(
                "Descrambler",
                format!("mask={mask:#x} seed={seed} len={len}"),
                1,
                bits.clone(),
                tags.clone(),
                st8.clone(),
                1,
                move |r| {
                    let (b, o) = Descrambler::new(r, mask, seed, len);
                    (bx(b), o)
                },
            ),
            ub(&specs::descramble(&bits, mask, seed, len)),
            id_tags.clone(),
        ));
    }
    v.push(with_samples(
        s11("Descrambler", "g3ruh".into(), 1, bits.clone(), tags.clone(), st8.clone(), 1, |r| {
            let (b, o) = Descrambler::new_g3ruh(r);
            (bx(b), o)
        }),
        ub(&specs::descramble(&bits, 0x21, 0, 16)),
    ));
    // The last two: a stream that starts with (a prefix of) the code itself,
    // so that the first code-length samples matter.
    for (code, allowed, lead) in [
        (vec![1u8], 0usize, false),
        (vec![1, 0, 1], 0, false),
        (vec![1, 0, 1], 1, false),
        (vec![0, 1, 1, 0, 1, 0, 0, 1], 2, false),
        (vec![1, 0, 1], 0, true),
        (vec![1, 1, 0, 1, 0, 0, 1, 0], 1, true),
    ] {
        let bits: Vec<u8> = if lead {
            let mut b = code.clone();
            b.extend(&bits[..12]);
            b
        } else {
            bits.clone()
        };
        let tags: InTags = if lead { vec![] } else { tags.clone() };
        let id_tags = if lead { vec![] } else { id_tags.clone() };
        let corr = specs::correlate(&bits, &code, allowed);
        let c2 = code.clone();
        v.push(with_samples(
            s11(
                "CorrelateAccessCode",
                format!("code={code:?} allowed={allowed}{}", if lead { " stream starts with the code" } else { "" }),
                1,
                bits.clone(),
                tags.clone(),
                st8.clone(),
                1,
                move |r| {
                    let (b, o) = CorrelateAccessCode::new(r, c2.clone(), allowed);
                    (bx(b), o)
                },
            ),
            corr.iter().map(|(m, _)| *m as u64).collect(),
        ));
        let c3 = code.clone();
        let mut wt = id_tags.clone();
        for (i, (m, d)) in corr.iter().enumerate() {
            if *m == 1 {
                wt.push((i, "sync".into(), format!("U64({d})")));
            }
        }
        v.push(with_samples_tags(
            s11(
                "CorrelateAccessCodeTag",
                format!("code={code:?} allowed={allowed}{}", if lead { " stream starts with the code" } else { "" }),
                1,
                bits.clone(),
                tags.clone(),
                st8.clone(),
                1,
                move |r| {
                    let (b, o) = CorrelateAccessCodeTag::new(r, c3.clone(), "sync", allowed);
                    (bx(b), o)
                },
            ),
            ub(&bits),
            wt,
        ));
    }
    v.push(with_samples_tags(
        s11("XorConst<u8>", "val=1".into(), 1, bits.clone(), tags.clone(), st8.clone(), 1, |r| {
            let (b, o) = XorConst::new(r, 1u8);
            (bx(b), o)
        }),
        bits.iter().map(|b| (*b ^ 1) as u64).collect(),
        id_tags.clone(),
    ));

    // ---- float blocks
    let fl = test_floats(20);
    let specials: Vec<f32> = vec![0.0, -0.0, 1.0, -1.0, 0.5, f32::NAN, f32::INFINITY, f32::NEG_INFINITY, f32::MIN_POSITIVE, -1e-30];
    for (name, data) in [("wave", fl.clone()), ("specials", specials.clone())] {
        let d2 = data.clone();
        v.push(with_samples_tags(
            s11("BinarySlicer", name.into(), 1, data.clone(), tags.clone(), native_starts(CF, CU8), 1, |r| {
                let (b, o) = BinarySlicer::new(r);
                (bx(b), o)
            }),
            d2.iter().map(|x| (*x > 0.0) as u64).collect(),
            id_tags.iter().filter(|t| t.0 < d2.len()).cloned().collect(),
        ));
        let d3 = data.clone();
        v.push(with_samples(
            s11("AddConst<f32>", format!("{name} +0.5"), 1, data.clone(), tags.clone(), native_starts(CF, CF), 1, |r| {
                let (b, o) = AddConst::new(r, 0.5f32);
                (bx(b), o)
            }),
            d3.iter().map(|x| (x + 0.5f32).to_bits() as u64).collect(),
        ));
        let d4 = data.clone();
        v.push(with_samples(
            s11("MultiplyConst<f32>", format!("{name} *-2"), 1, data.clone(), tags.clone(), native_starts(CF, CF), 1, |r| {
                let (b, o) = MultiplyConst::new(r, -2.0f32);
                (bx(b), o)
            }),
            d4.iter().map(|x| (x * -2.0f32).to_bits() as u64).collect(),
        ));
    }
    {
        // SinglePoleIirFilter: y = a*x + (1-a)*y_prev, y_prev starts at 0.
        for alpha in [0.25f32, 1.0, 0.0] {
            let mut y = 0.0f32;
            let want: Vec<f32> = fl
                .iter()
                .map(|x| {
                    y = alpha * x + (1.0 - alpha) * y;
                    y
                })
                .collect();
            v.push(with_samples(
                s11("SinglePoleIirFilter", format!("alpha={alpha}"), 1, fl.clone(), tags.clone(), native_starts(CF, CF), 1, move |r| {
                    let (b, o) = SinglePoleIirFilter::new(r, alpha).unwrap();
                    (bx(b), o)
                }),
                fb(&want),
            ));
        }
    }
    // ---- complex
    let cx = test_complex(16);
    v.push(with_samples_tags(
        s11("ComplexToMag2", "16".into(), 1, cx.clone(), tags.clone(), native_starts(CC, CF), 1, |r| {
            let (b, o) = ComplexToMag2::new(r);
            (bx(b), o)
        }),
        cx.iter().map(|c| c.norm_sqr().to_bits() as u64).collect(),
        id_tags.clone(),
    ));
    {
        let mut last = Complex::new(0.0, 0.0);
        let want: Vec<f32> = cx
            .iter()
            .map(|s| {
                let t = s * last.conj();
                last = *s;
                0.5 * t.im.atan2(t.re)
            })
            .collect();
        v.push(with_samples(
            s11("QuadratureDemod", "gain=0.5".into(), 1, cx.clone(), tags.clone(), native_starts(CC, CF), 1, |r| {
                let (b, o) = QuadratureDemod::new(r, 0.5);
                (bx(b), o)
            }),
            fb(&want),
        ));
        let (mut q1, mut q2) = (Complex::new(0.0, 0.0), Complex::new(0.0, 0.0));
        let want: Vec<f32> = cx
            .iter()
            .map(|s| {
                let top = (s.im - q2.im) * q1.re;
                let bottom = (s.re - q2.re) * q1.im;
                q2 = q1;
                q1 = *s;
                top - bottom
            })
            .collect();
        v.push(with_samples(
            s11("FastFM", "16".into(), 1, cx.clone(), tags.clone(), native_starts(CC, CF), 1, |r| {
                let (b, o) = FastFM::new(r);
                (bx(b), o)
            }),
            fb(&want),
        ));
    }
    // RtlSdrDecode: pairs of bytes.
    for data in [vec![0u8, 255, 127, 128, 1, 2, 200, 100, 64], (0..=40u8).map(|x| x.wrapping_mul(37)).collect::<Vec<u8>>()] {
        let want: Vec<Complex> = data
            .chunks_exact(2)
            .map(|e| Complex::new((e[0] as Float - 127.0) * 0.008, (e[1] as Float - 127.0) * 0.008))
            .collect();
        v.push(with_samples(
            s11("RtlSdrDecode", format!("{} bytes", data.len()), 2, data.clone(), vec![], native_starts(CU8, CC), 1, |r| {
                let (b, o) = RtlSdrDecode::new(r);
                (bx(b), o)
            }),
            cb(&want),
        ));
    }
    // FIR on floats and complex, with decimation.
    for (taps, deci) in [(vec![0.5f32, 0.25, -0.125, 1.0, 2.0], 1usize), (vec![1.0, -1.0, 0.5], 2), (vec![0.25; 9], 3)] {
        let nt = taps.len();
        let data = test_floats(31);
        let fir = rustradio::fir::Fir::new(&taps);
        // One output per full group of `deci` input samples for which a full
        // tap window is available (the documentation does not define what
        // happens to a trailing partial group; the block keeps it).
        let nout = (data.len() - nt + 1) / deci;
        let want: Vec<f32> = (0..nout).map(|j| fir.filter_float(&data[j * deci..j * deci + nt])).collect();
        let consumed = want.len() * deci;
        let wt: Vec<ATag> = id_tags.iter().filter(|t| t.0 < consumed).map(|t| (t.0 / deci, t.1.clone(), t.2.clone())).collect();
        let t2 = taps.clone();
        v.push(with_samples_tags(
            s11(
                "FirFilter<f32>",
                format!("ntaps={nt} deci={deci}"),
                nt + deci - 1,
                data.clone(),
                tags.clone(),
                native_starts(CF, CF),
                1,
                move |r| {
                    let (b, o) = FirFilterBuilder::new(&t2).deci(deci).build(r);
                    (bx(b), o)
                },
            ),
            fb(&want),
            wt,
        ));
    }
    // Hilbert.
    for ntaps in [5usize, 9] {
        let data = test_floats(24);
        v.push({
            let mut s = s11(
                "Hilbert",
                format!("ntaps={ntaps}"),
                1,
                data.clone(),
                tags.clone(),
                native_starts(CF, CC),
                1,
                move |r| {
                    let (b, o) = Hilbert::new(r, ntaps, &rustradio::window::WindowType::Hamming);
                    (bx(b), o)
                },
            );
            s.spec = Some(Spec {
                samples: vec![None],
                packets: vec![],
                tags: vec![Some(id_tags.clone())],
            });
            s
        });
    }
    // FFT filter (complex) and its float variant.
    {
        let taps: Vec<Complex> = vec![Complex::new(0.5, 0.0), Complex::new(0.25, 0.1), Complex::new(-0.125, 0.0)];
        let data = test_complex(23);
        v.push({
            let t2 = taps.clone();
            let mut s = s11("FftFilter", "ntaps=3".into(), 5, data.clone(), tags.clone(), native_starts(CC, CC), 1, move |r| {
                let (b, o) = FftFilter::new(r, &t2);
                (bx(b), o)
            });
            // 23 samples, blocks of 5: 20 out.
            s.spec = Some(Spec {
                samples: vec![None],
                packets: vec![],
                tags: vec![Some(id_tags.iter().filter(|t| t.0 < 20).cloned().collect())],
            });
            s
        });
        // The same filter with more data than its four streams hold together
        // (one page each): everything full, samples in flight inside, when the
        // input ends.
        for nlong in [1800usize, 3000] {
            let ftaps = vec![0.5f32, 0.25, -0.125];
            let fdata = test_floats(nlong);
            v.push(Subject {
                block: "FftFilterFloat".into(),
                variant: format!("ntaps=3, {nlong} samples through one-page streams"),
                quantum: 1024,
                build: Box::new(move |st| {
                    verif::clear_stream_specs();
                    let (ip, r) = sin(st, fdata.clone(), vec![]);
                    verif::push_stream_spec(StreamSpec::plain(PAGE));
                    verif::push_stream_spec(StreamSpec::plain(PAGE));
                    plan_out(st, 1);
                    let (b, o) = FftFilterFloat::new(r, &ftaps);
                    verif::clear_stream_specs();
                    Instance {
                        block: bx(b),
                        ins: vec![ip],
                        outs: vec![sout(st, o)],
                    }
                }),
                starts: vec![Start::plain()],
                ref_pages: 8,
                spec: None,
                infinite_source: false,
                horizon: 0,
                no_retire_check: false,
                warmup: vec![],
                horizon_delta: 0,
                prefix_spec: false,
                sync_check: false,
            });
        }
        let ftaps = vec![0.5f32, 0.25, -0.125];
        let fdata = test_floats(23);
        let tags2 = tags.clone();
        let idt = id_tags.clone();
        v.push(Subject {
            block: "FftFilterFloat".into(),
            variant: "ntaps=3".into(),
            quantum: 5,
            build: Box::new(move |st| {
                verif::clear_stream_specs();
                let (ip, r) = sin(st, fdata.clone(), tags2.clone());
                // Constructor creates: inner input, inner output, outer output.
                verif::push_stream_spec(StreamSpec::plain(PAGE));
                verif::push_stream_spec(StreamSpec::plain(PAGE));
                plan_out(st, 1);
                let (b, o) = FftFilterFloat::new(r, &ftaps);
                verif::clear_stream_specs();
                Instance {
                    block: bx(b),
                    ins: vec![ip],
                    outs: vec![sout(st, o)],
                }
            }),
            starts: native_starts(CF, CF),
            ref_pages: 1,
            spec: Some(Spec {
                samples: vec![None],
                packets: vec![],
                tags: vec![Some(idt.iter().filter(|t| t.0 < 20).cloned().collect())],
            }),
            infinite_source: false,
            horizon: 0,
            no_retire_check: false,
            warmup: vec![],
            horizon_delta: 0,
            prefix_spec: false,
            sync_check: false,
        });
    }
    // FftStream: framing in blocks of `size`; values by an O(n^2) DFT are
    // checked under C10 with a tolerance elsewhere; here count/chunking.
    for size in [1usize, 2, 4, 8] {
        let data = test_complex(2 * size + 3);
        // Framing specification: whole frames of `size` samples, in order, each
        // transformed on its own; a trailing partial frame is not emitted. The
        // transform of one frame is taken from the same FFT library (its values
        // are judged against an O(n^2) DFT under C11).
        let mut want: Vec<Complex> = vec![];
        {
            let mut planner = rustfft::FftPlanner::<f32>::new();
            let fft = planner.plan_fft_forward(size);
            for frame in data.chunks_exact(size) {
                let mut f = frame.to_vec();
                fft.process(&mut f);
                want.extend(f);
            }
        }
        v.push(with_samples(
            s11("FftStream", format!("size={size}"), size, data.clone(), vec![], native_starts(CC, CC), 1, move |r| {
                let (b, o) = FftStream::new(r, size);
                (bx(b), o)
            }),
            cb(&want),
        ));
        if size == 4 {
            // The optional thread-pool mode computes the same thing.
            v.push(with_samples(
                s11("FftStream", format!("size={size} threaded"), size, data, vec![], native_starts(CC, CC), 1, move |r| {
                    let (mut b, o) = FftStream::new(r, size);
                    b.threaded(true);
                    (bx(b), o)
                }),
                cb(&want),
            ));
        }
    }
    // Clock recovery.
    {
        let data = test_floats(64);
        v.push(s11("ZeroCrossing", "sps=4".into(), 4, data.clone(), vec![], native_starts(CF, CF), 1, |r| {
            let (b, o) = ZeroCrossing::new(r, 4.0, 0.5);
            (bx(b), o)
        }));
        v.push(s11("ZeroCrossing", "sps=2.5".into(), 3, data.clone(), vec![], native_starts(CF, CF), 1, |r| {
            let (b, o) = ZeroCrossing::new(r, 2.5, 0.5);
            (bx(b), o)
        }));
        v.push(s11("SymbolSync", "sps=4".into(), 4, data.clone(), vec![], native_starts(CF, CF), 1, |r| {
            let f = rustradio::iir_filter::IirFilter::new(&[0.5, 0.5]);
            let (b, o) = SymbolSync::new(r, 4.0, 0.5, Box::new(rustradio::symbol_sync::TedZeroCrossing::new()), Box::new(f));
            (bx(b), o)
        }));
    }
    // Clock recovery with the optional clock output in use: two outputs that
    // can have different amounts of room.
    {
        let data = test_floats(64);
        let mk = |block: &str, build: crate::envcheck::BuildFn| Subject {
            block: block.to_string(),
            variant: "sps=4 +clock output".to_string(),
            quantum: 4,
            build,
            starts: native_starts(CF, CF),
            ref_pages: 1,
            spec: None,
            infinite_source: false,
            horizon: 0,
            no_retire_check: false,
            warmup: vec![],
            horizon_delta: 0,
            prefix_spec: false,
            sync_check: false,
        };
        let d1 = data.clone();
        v.push(mk(
            "ZeroCrossing",
            Box::new(move |st| {
                verif::clear_stream_specs();
                let (ip, r) = sin(st, d1.clone(), vec![]);
                plan_out(st, 2);
                let (mut b, o) = ZeroCrossing::new(r, 4.0, 0.5);
                let c = b.out_clock();
                verif::clear_stream_specs();
                Instance {
                    block: bx(b),
                    ins: vec![ip],
                    outs: vec![sout(st, o), sout(st, c)],
                }
            }),
        ));
        let d2 = data.clone();
        v.push(mk(
            "SymbolSync",
            Box::new(move |st| {
                verif::clear_stream_specs();
                let (ip, r) = sin(st, d2.clone(), vec![]);
                plan_out(st, 2);
                let f = rustradio::iir_filter::IirFilter::new(&[0.5, 0.5]);
                let (mut b, o) = SymbolSync::new(r, 4.0, 0.5, Box::new(rustradio::symbol_sync::TedZeroCrossing::new()), Box::new(f));
                let c = b.out_clock().expect("clock output");
                verif::clear_stream_specs();
                Instance {
                    block: bx(b),
                    ins: vec![ip],
                    outs: vec![sout(st, o), sout(st, c)],
                }
            }),
        ));
    }
    // AU encode / decode.
    {
        let data: Vec<f32> = vec![0.0, 0.5, -0.5, 1.0, -1.0, 0.25, 0.999, -0.001, 0.3];
        let mut want: Vec<u8> = vec![];
        want.extend(0x2e736e64u32.to_be_bytes());
        want.extend(28u32.to_be_bytes());
        want.extend(0xffffffffu32.to_be_bytes());
        want.extend(3u32.to_be_bytes());
        want.extend(8000u32.to_be_bytes());
        want.extend(1u32.to_be_bytes());
        want.extend([0, 0, 0, 0]);
        for x in &data {
            want.extend(((x * 32767.0) as i16).to_be_bytes());
        }
        v.push(with_samples(
            s11("AuEncode", "9 samples".into(), 2, data.clone(), vec![], native_starts(CF, CU8), 1, |r| {
                let (b, o) = AuEncode::new(r, rustradio::au::Encoding::Pcm16, 8000, 1);
                (bx(b), o)
            }),
            ub(&want),
        ));
        let dec_want: Vec<f32> = data.iter().map(|x| ((x * 32767.0) as i16) as f32 / 32767.0).collect();
        let mut dec = s11("AuDecode", "header+9 samples".into(), 4, want.clone(), vec![], native_starts(CU8, CF), 1, |r| {
            let (b, o) = AuDecode::new(r, 8000);
            (bx(b), o)
        });
        // The 28-byte header takes three calls; the horizon cannot get past
        // it from the initial state. Enumerate from the data state too.
        dec.warmup = vec![Act::Feed(0, 28), Act::Nop, Act::Nop];
        v.push(with_samples(dec, fb(&dec_want)));
    }
    // HDLC deframer: two frames with a shared flag, and noise before.
    {
        let frames = vec![vec![0x01u8, 0x7e, 0xff, 0x3f], vec![0xaa, 0x55, 0x00]];
        let mut bits = vec![1, 0, 1, 1, 0];
        bits.extend(specs::hdlc_stream(&frames, true, 2, 1));
        let want: Vec<Vec<u64>> = frames.iter().map(|f| ub(f)).collect();
        v.push(with_packets(
            s1p("HdlcDeframer", "2 frames crc".into(), 8, bits.clone(), vec![], native_starts(CU8, CU8), |r| {
                let (b, o) = HdlcDeframer::new(r, 2, 20);
                (bx(b), o)
            }),
            want,
        ));
    }
    // StreamToPdu: tagged bursts to packets.
    {
        let data: Vec<u8> = (0..20u8).collect();
        let t: InTags = vec![
            (2, "burst".into(), TagValue::Bool(true)),
            (6, "burst".into(), TagValue::Bool(false)),
            (9, "burst".into(), TagValue::Bool(true)),
            (10, "burst".into(), TagValue::Bool(false)),
        ];
        v.push(with_packets(
            s1p("StreamToPdu", "tail=0".into(), 2, data.clone(), t.clone(), native_starts(CU8, CU8), |r| {
                let (b, o) = StreamToPdu::new(r, "burst", 100, 0);
                (bx(b), o)
            }),
            vec![vec![2, 3, 4, 5], vec![9]],
        ));
        // `tail` is not documented (the block includes `tail` samples after
        // the end-marked one, but not the end-marked one itself): chunking and
        // verdicts only, no specification.
        // A marker inside the tail of the previous burst ("flapping"), with
        // more markers after it.
        let t4: InTags = vec![
            (2, "burst".into(), TagValue::Bool(true)),
            (6, "burst".into(), TagValue::Bool(false)),
            (7, "burst".into(), TagValue::Bool(true)),
            (8, "burst".into(), TagValue::Bool(false)),
            (12, "burst".into(), TagValue::Bool(true)),
            (15, "burst".into(), TagValue::Bool(false)),
        ];
        v.push(s1p("StreamToPdu", "tail=2 marker inside the tail".into(), 2, data.clone(), t4, native_starts(CU8, CU8), |r| {
            let (b, o) = StreamToPdu::new(r, "burst", 100, 2);
            (bx(b), o)
        }));
        // A stray end marker, a burst longer than max_size, then a normal
        // one; with a tail. (Chunking and verdicts only.)
        let t3: InTags = vec![
            (1, "burst".into(), TagValue::Bool(false)),
            (4, "burst".into(), TagValue::Bool(true)),
            (9, "burst".into(), TagValue::Bool(false)),
            (13, "burst".into(), TagValue::Bool(true)),
            (15, "burst".into(), TagValue::Bool(false)),
        ];
        v.push(s1p("StreamToPdu", "max=3 tail=2 stray end, overlong burst".into(), 2, data.clone(), t3, native_starts(CU8, CU8), |r| {
            let (b, o) = StreamToPdu::new(r, "burst", 3, 2);
            (bx(b), o)
        }));
        v.push(s1p("StreamToPdu", "tail=2".into(), 2, data.clone(), t.clone(), native_starts(CU8, CU8), |r| {
            let (b, o) = StreamToPdu::new(r, "burst", 100, 2);
            (bx(b), o)
        }));
    }
    // VecToStream: packets in, samples out, with start/end tags. Several
    // packet lists: the last packet is the one that matters at end of stream.
    for (vname, pk) in [
        ("4 packets", vec![vec![1u8, 2, 3], vec![], vec![4], vec![5, 6]]),
        ("1 packet", vec![vec![1u8, 2, 3]]),
        ("2 packets", vec![vec![1u8, 2], vec![3, 4, 5]]),
    ] {
        let flat: Vec<u8> = pk.iter().flatten().copied().collect();
        let mut wt: Vec<ATag> = vec![];
        let mut pos = 0;
        for p in &pk {
            if !p.is_empty() {
                wt.push((pos, "VecToStream::start".into(), format!("U64({})", p.len())));
                wt.push((pos + p.len() - 1, "VecToStream::end".into(), format!("U64({})", p.len())));
                pos += p.len();
            }
        }
        let pk2 = pk.clone();
        v.push(Subject {
            block: "VecToStream".into(),
            variant: vname.into(),
            quantum: 3,
            build: Box::new(move |st| {
                verif::clear_stream_specs();
                let (ip, r) = pin(pk2.clone());
                plan_out(st, 1);
                let (b, o) = VecToStream::new(r);
                verif::clear_stream_specs();
                Instance {
                    block: bx(b),
                    ins: vec![ip],
                    outs: vec![sout(st, o)],
                }
            }),
            starts: native_starts(CU8, CU8),
            ref_pages: 1,
            spec: Some(Spec {
                samples: vec![Some(ub(&flat))],
                packets: vec![],
                tags: vec![Some(wt)],
            }),
            infinite_source: false,
            horizon: 0,
            no_retire_check: false,
            warmup: vec![],
            horizon_delta: 0,
            prefix_spec: false,
            sync_check: false,
        });
    }
    // Debug and bookkeeping blocks: strings per sample, prints, files per
    // packet, a digest on drop.
    {
        let data: Vec<u8> = (0..9u8).collect();
        let mk = |variant: &str, build: crate::envcheck::BuildFn| Subject {
            block: variant.split(' ').next().unwrap().to_string(),
            variant: variant.to_string(),
            quantum: 2,
            build,
            starts: native_starts(CU8, CU8),
            ref_pages: 1,
            spec: None,
            infinite_source: false,
            horizon: 0,
            no_retire_check: false,
            warmup: vec![],
            horizon_delta: 0,
            prefix_spec: false,
            sync_check: false,
        };
        let (d1, t1) = (data.clone(), tags.clone());
        v.push(mk(
            "DebugFilter 9 bytes",
            Box::new(move |st| {
                verif::clear_stream_specs();
                let (ip, r) = sin(st, d1.clone(), t1.clone());
                let (b, o) = DebugFilter::new(r);
                Instance {
                    block: bx(b),
                    ins: vec![ip],
                    outs: vec![pout_with(o, |s: &String| s.bytes().map(|b| b as u64).collect())],
                }
            }),
        ));
        let (d2, t2) = (data.clone(), tags.clone());
        v.push(mk(
            "DebugSink 9 bytes",
            Box::new(move |st| {
                verif::clear_stream_specs();
                let (ip, r) = sin(st, d2.clone(), t2.clone());
                Instance {
                    block: bx(DebugSink::new(r)),
                    ins: vec![ip],
                    outs: vec![],
                }
            }),
        ));
        let pk: Vec<Vec<u8>> = vec![vec![1, 2, 3], vec![], vec![4], vec![5, 6]];
        let pk1 = pk.clone();
        v.push(mk(
            "DebugSinkNoCopy 4 packets",
            Box::new(move |_st| {
                verif::clear_stream_specs();
                let (ip, r) = pin(pk1.clone());
                Instance {
                    block: bx(DebugSinkNoCopy::new(r)),
                    ins: vec![ip],
                    outs: vec![],
                }
            }),
        ));
        let pk2 = pk.clone();
        v.push(mk(
            "PduWriter 4 packets",
            Box::new(move |_st| {
                verif::clear_stream_specs();
                let (ip, r) = pin(pk2.clone());
                let dir = std::env::temp_dir().join(format!("verif-pdu-{}", std::process::id()));
                let _ = std::fs::create_dir_all(&dir);
                Instance {
                    block: bx(PduWriter::<u8>::new(r, dir)),
                    ins: vec![ip],
                    outs: vec![],
                }
            }),
        ));
        let d3 = data.clone();
        v.push(mk(
            "Hasher 9 bytes",
            Box::new(move |st| {
                verif::clear_stream_specs();
                let (ip, r) = sin(st, d3.clone(), vec![]);
                let (b, o) = sha512(r);
                Instance {
                    block: bx(b),
                    ins: vec![ip],
                    outs: vec![pout(o)],
                }
            }),
        ));
    }
    // BurstTagger: data stream plus a float trigger stream.
    {
        let data: Vec<u8> = (0..12u8).collect();
        let trig: Vec<f32> = vec![0.0, 0.0, 1.0, 1.0, 1.0, 0.0, 0.0, 2.0, 0.0, 0.5, 0.5001, 0.4];
        let mut wt = id_tags.iter().filter(|t| t.0 < 12).cloned().collect::<Vec<_>>();
        let mut last = false;
        for (i, t) in trig.iter().enumerate() {
            let cur = *t > 0.5;
            if cur != last {
                wt.push((i, "burst".into(), format!("Bool({cur})")));
            }
            last = cur;
        }
        let tags2 = tags.clone();
        v.push(Subject {
            block: "BurstTagger".into(),
            variant: "threshold=0.5".into(),
            quantum: 1,
            build: Box::new(move |st| {
                verif::clear_stream_specs();
                let (ip, r) = sin(st, data.clone(), tags2.clone());
                let (ip2, r2) = sin(st, trig.clone(), vec![]);
                plan_out(st, 1);
                let (b, o) = BurstTagger::new(r, r2, 0.5, "burst");
                verif::clear_stream_specs();
                Instance {
                    block: bx(b),
                    ins: vec![ip, ip2],
                    outs: vec![sout(st, o)],
                }
            }),
            starts: native_starts(CU8, CU8),
            ref_pages: 1,
            spec: Some(Spec {
                samples: vec![Some((0..12u64).collect())],
                packets: vec![],
                tags: vec![Some(wt)],
            }),
            infinite_source: false,
            horizon: 0,
            no_retire_check: false,
            warmup: vec![],
            horizon_delta: 0,
            prefix_spec: false,
            sync_check: false,
        });
    }
    // FloatToComplex: two inputs.
    {
        let a = test_floats(10);
        let b2: Vec<f32> = (0..10).map(|i| i as f32 * 0.5 - 2.0).collect();
        let want: Vec<Complex> = a.iter().zip(&b2).map(|(x, y)| Complex::new(*x, *y)).collect();
        let tags2 = tags.clone();
        v.push(Subject {
            block: "FloatToComplex".into(),
            variant: "10".into(),
            quantum: 1,
            build: Box::new(move |st| {
                verif::clear_stream_specs();
                let (ip, r) = sin(st, a.clone(), tags2.clone());
                let (ip2, r2) = sin(st, b2.clone(), vec![]);
                plan_out(st, 1);
                let (b, o) = FloatToComplex::new(r, r2);
                verif::clear_stream_specs();
                Instance {
                    block: bx(b),
                    ins: vec![ip, ip2],
                    outs: vec![sout(st, o)],
                }
            }),
            starts: native_starts(CF, CC),
            ref_pages: 1,
            spec: Some(Spec {
                samples: vec![Some(cb(&want))],
                packets: vec![],
                tags: vec![Some(id_tags.iter().filter(|t| t.0 < 10).cloned().collect())],
            }),
            infinite_source: false,
            horizon: 0,
            no_retire_check: false,
            warmup: vec![],
            horizon_delta: 0,
            prefix_spec: false,
            sync_check: false,
        });
    }
    // ToText: two float inputs, one line per sample pair.
    {
        let a: Vec<f32> = vec![1.0, -0.5, 3.25];
        let b2: Vec<f32> = vec![0.0, 2.0, -7.5];
        let mut want = String::new();
        for (x, y) in a.iter().zip(&b2) {
            want += &format!("{x:?} {y:?}\n");
        }
        v.push(Subject {
            block: "ToText".into(),
            variant: "2 inputs".into(),
            quantum: 1,
            build: Box::new(move |st| {
                verif::clear_stream_specs();
                let (ip, r) = sin(st, a.clone(), vec![]);
                let (ip2, r2) = sin(st, b2.clone(), vec![]);
                plan_out(st, 1);
                let (b, o) = ToText::new(vec![r, r2]);
                verif::clear_stream_specs();
                Instance {
                    block: bx(b),
                    ins: vec![ip, ip2],
                    outs: vec![sout(st, o)],
                }
            }),
            starts: native_starts(CF, CU8),
            ref_pages: 1,
            spec: Some(Spec {
                samples: vec![Some(ub(want.as_bytes()))],
                packets: vec![],
                tags: vec![None],
            }),
            infinite_source: false,
            horizon: 0,
            no_retire_check: false,
            warmup: vec![],
            horizon_delta: 0,
            prefix_spec: false,
            sync_check: false,
        });
    }
    for s in &mut v {
        s.horizon_delta = -1;
    }
    v
}

/// Sources that never end: only the verdict oracle applies (C09).
pub fn endless_sources() -> Vec<Subject> {
    let mut v = Vec::new();
    let mk = |block: &str, build: crate::envcheck::BuildFn, starts: Vec<Start>| Subject {
        block: block.into(),
        variant: "endless".into(),
        quantum: 2,
        build,
        starts,
        ref_pages: 1,
        spec: None,
        infinite_source: true,
        horizon: 4,
        no_retire_check: true,
        warmup: vec![],
        horizon_delta: 0,
        prefix_spec: true,
        sync_check: false,
    };
    v.push(mk(
        "SignalSourceFloat",
        Box::new(|st| {
            verif::clear_stream_specs();
            plan_out(st, 1);
            let (b, o) = SignalSourceFloat::new(8000.0, 1000.0, 1.0);
            verif::clear_stream_specs();
            Instance { block: bx(b), ins: vec![], outs: vec![sout(st, o)] }
        }),
        native_starts(CF, CF),
    ));
    v.push(mk(
        "SignalSourceComplex",
        Box::new(|st| {
            verif::clear_stream_specs();
            plan_out(st, 1);
            let (b, o) = SignalSourceComplex::new(8000.0, 1000.0, 1.0);
            verif::clear_stream_specs();
            Instance { block: bx(b), ins: vec![], outs: vec![sout(st, o)] }
        }),
        native_starts(CC, CC),
    ));
    v.push(mk(
        "ConstantSource",
        Box::new(|st| {
            verif::clear_stream_specs();
            plan_out(st, 1);
            let (b, o) = ConstantSource::new(1.5f32);
            verif::clear_stream_specs();
            Instance { block: bx(b), ins: vec![], outs: vec![sout(st, o)] }
        }),
        native_starts(CF, CF),
    ));
    v
}
