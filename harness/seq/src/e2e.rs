//! C20: the documented receive chains decode every clean AX.25 frame, on both
//! runners. Harness-side modulators (Bell-202 AFSK, G3RUH 2-FSK) feed the
//! chains re-assembled from examples/ax25-1200-rx.rs and ax25-9600-rx.rs.
use rustradio::block::Block;
use rustradio::blocks::*;
use rustradio::graph::{Graph, GraphRunner};
use rustradio::mtgraph::MTGraph;
use rustradio::verif;
use rustradio::window::WindowType;
use rustradio::{Complex, Float};
use serde_json::{Value, json};
use vcommon::specs::*;
use vcommon::*;

#[derive(Clone, Debug)]
pub struct Cfg {
    pub baud: u32, // 1200 or 9600
    pub rate: u32,
    pub family: String,
    pub len: usize,
    pub frames: usize,
    pub between: usize,
    pub preamble: usize,
    pub phase: f64,
    pub timing: f64,
    pub mt: bool,
    /// Samples of silence before the transmission ("at any position in the
    /// stream").
    pub lead: usize,
    /// Empty: the whole signal from a VectorSource. Otherwise a source that
    /// hands the signal out in pieces of these sizes, cyclically (as an audio
    /// or SDR source does).
    pub pieces: Vec<usize>,
    /// Make the k-th stream of the chain (in construction order) small (one
    /// page), all others the default 4 MB: back pressure at one point of the
    /// chain.
    pub small: Option<usize>,
    /// Deliver through the PduWriter block, as the documented receivers do
    /// (one file per frame in a directory), instead of reading the deframer's
    /// output stream directly.
    pub pduw: bool,
}

/// Source handing out a fixed signal in pieces of given sizes.
struct PieceSource<T: Copy> {
    dst: rustradio::stream::WriteStream<T>,
    data: Vec<T>,
    pos: usize,
    pieces: Vec<usize>,
    k: usize,
}

impl<T: Copy> PieceSource<T> {
    fn new(data: Vec<T>, pieces: Vec<usize>) -> (Self, rustradio::stream::ReadStream<T>) {
        let (dst, r) = rustradio::stream::new_stream();
        (Self { dst, data, pos: 0, pieces, k: 0 }, r)
    }
}

impl<T: Copy> rustradio::block::BlockName for PieceSource<T> {
    fn block_name(&self) -> &str {
        "PieceSource"
    }
}
impl<T: Copy> rustradio::block::BlockEOF for PieceSource<T> {}
impl<T: Copy> Block for PieceSource<T> {
    fn work(&mut self) -> rustradio::Result<rustradio::block::BlockRet> {
        use rustradio::block::BlockRet;
        if self.pos == self.data.len() {
            return Ok(BlockRet::EOF);
        }
        let mut o = self.dst.write_buf()?;
        let want = self.pieces[self.k % self.pieces.len()].min(self.data.len() - self.pos);
        if o.len() < want {
            // Keep pieces whole: wait for room.
            return Ok(BlockRet::WaitForStream(&self.dst, want));
        }
        o.slice()[..want].copy_from_slice(&self.data[self.pos..self.pos + want]);
        o.produce(want, &[]);
        self.pos += want;
        self.k += 1;
        Ok(BlockRet::Again)
    }
}

impl Cfg {
    fn to_json(&self) -> Value {
        json!({"baud": self.baud, "rate": self.rate, "family": self.family, "len": self.len, "frames": self.frames,
            "between": self.between, "preamble": self.preamble, "phase": self.phase, "timing": self.timing, "mt": self.mt,
            "lead": self.lead, "pieces": self.pieces, "small": self.small, "pduw": self.pduw})
    }
    fn from_json(v: &Value) -> Self {
        Self {
            baud: v["baud"].as_u64().unwrap() as u32,
            rate: v["rate"].as_u64().unwrap() as u32,
            family: v["family"].as_str().unwrap().into(),
            len: v["len"].as_u64().unwrap() as usize,
            frames: v["frames"].as_u64().unwrap() as usize,
            between: v["between"].as_u64().unwrap() as usize,
            preamble: v["preamble"].as_u64().unwrap() as usize,
            phase: v["phase"].as_f64().unwrap(),
            timing: v["timing"].as_f64().unwrap(),
            mt: v["mt"].as_bool().unwrap(),
            lead: v["lead"].as_u64().unwrap_or(0) as usize,
            pieces: v["pieces"].as_array().map(|a| a.iter().map(|x| x.as_u64().unwrap() as usize).collect()).unwrap_or_default(),
            small: v["small"].as_u64().map(|x| x as usize),
            pduw: v["pduw"].as_bool().unwrap_or(false),
        }
    }
}

fn payload(family: &str, len: usize, k: usize) -> Vec<u8> {
    match family {
        "zeros" => vec![0x00; len],
        "ones" => vec![0xff; len],
        "flags" => vec![0x7e; len],
        "3f" => (0..len).map(|i| if (i + k) % 3 == 0 { 0x3f } else { 0xfc }).collect(),
        _ => (0..len).map(|i| (i as u8).wrapping_add(k as u8 * 17)).collect(),
    }
}

fn frames_of(c: &Cfg) -> Vec<Vec<u8>> {
    (0..c.frames).map(|k| payload(&c.family, c.len, k)).collect()
}

/// The HDLC bit stream for a transmission, with trailing flags.
fn tx_bits(c: &Cfg, trailing: usize) -> Vec<u8> {
    let mut bits = hdlc_stream(&frames_of(c), true, c.preamble, c.between);
    for _ in 0..trailing {
        bits.extend(FLAG);
    }
    bits
}

/// Bell 202 AFSK: NRZI levels select 1200 Hz or 2200 Hz, continuous phase.
fn afsk(bits: &[u8], rate: u32, phase0: f64, timing: f64) -> Vec<Float> {
    let levels = nrzi_encode(bits);
    let sps = rate as f64 / 1200.0;
    let n = (levels.len() as f64 * sps) as usize;
    let mut ph = phase0;
    let mut out = Vec::with_capacity(n + 64);
    for t in 0..n {
        let sym = (((t as f64) + timing) / sps) as usize;
        let lvl = levels[sym.min(levels.len() - 1)];
        let f = if lvl == 1 { 1200.0 } else { 2200.0 };
        ph += 2.0 * std::f64::consts::PI * f / rate as f64;
        if ph > 2.0 * std::f64::consts::PI {
            ph -= 2.0 * std::f64::consts::PI;
        }
        out.push(ph.cos() as Float * 0.5);
    }
    out
}

/// G3RUH: scramble, NRZI, 2-FSK at +-3 kHz, complex baseband.
fn g3ruh(bits: &[u8], rate: u32, phase0: f64, timing: f64) -> Vec<Complex> {
    let scr = scramble(bits, 0x21, 0, 16);
    let levels = nrzi_encode(&scr);
    let sps = rate as f64 / 9600.0;
    let n = (levels.len() as f64 * sps) as usize;
    let mut ph = phase0;
    let mut out = Vec::with_capacity(n + 64);
    for t in 0..n {
        let sym = (((t as f64) + timing) / sps) as usize;
        let lvl = levels[sym.min(levels.len() - 1)];
        let f = if lvl == 1 { 3000.0 } else { -3000.0 };
        ph += 2.0 * std::f64::consts::PI * f / rate as f64;
        if ph > std::f64::consts::PI {
            ph -= 2.0 * std::f64::consts::PI;
        }
        if ph < -std::f64::consts::PI {
            ph += 2.0 * std::f64::consts::PI;
        }
        out.push(Complex::new(ph.cos() as Float, ph.sin() as Float) * 0.5);
    }
    out
}

fn runner(mt: bool) -> Box<dyn GraphRunner> {
    if mt { Box::new(MTGraph::new()) } else { Box::new(Graph::new()) }
}

/// Constructor list of each chain, for the conformance check against the
/// examples.
pub const CHAIN_1200: [&str; 8] = ["Hilbert", "QuadratureDemod", "FftFilterFloat", "add_const", "SymbolSync", "BinarySlicer", "NrziDecode", "HdlcDeframer"];
pub const CHAIN_9600: [&str; 8] = ["FftFilter", "RationalResampler", "QuadratureDemod", "SymbolSync", "BinarySlicer", "NrziDecode", "Descrambler", "HdlcDeframer"];

pub fn run_cfg(c: &Cfg) -> Result<Vec<Vec<u8>>, String> {
    verif::clear_stream_specs();
    verif::set_default_stream_size(None);
    if let Some(k) = c.small {
        let dflt = 4_096_000usize;
        for _ in 0..k {
            verif::push_stream_spec(verif::StreamSpec { size: dflt, offset: 0, prefill: 0 });
        }
        // One page; the stream an FFT filter writes whole blocks into has
        // to hold a block: 16 pages there.
        let fft_dst = if c.baud == 1200 { 4 } else { 1 };
        let pages = if k == fft_dst { 16 } else { 1 };
        verif::push_stream_spec(verif::StreamSpec { size: pages * 4096, offset: 0, prefill: 0 });
    }
    verif::set_virtual_time(!c.mt);
    let mut g = runner(c.mt);
    macro_rules! add {
        ($e:expr) => {{
            let (b, o) = $e;
            g.add(Box::new(b));
            o
        }};
    }
    let out = if c.baud == 1200 {
        // Enough trailing flags to push the last frame through the block-wise
        // FFT filter (whole blocks only) and the Hilbert/filter delays.
        let samp_rate = c.rate as Float;
        let taps = rustradio::fir::low_pass(samp_rate, 1100.0, 100.0, &WindowType::Hamming);
        let fft_block = {
            let mut n = 1;
            while n < taps.len() {
                n <<= 1;
            }
            2 * n - taps.len()
        };
        let sps = c.rate as f64 / 1200.0;
        let trailing = ((2 * fft_block + 200) as f64 / sps / 8.0) as usize + 4;
        let mut sig = vec![0.0 as Float; c.lead];
        sig.extend(afsk(&tx_bits(c, trailing), c.rate, c.phase, c.timing));
        let prev = if c.pieces.is_empty() { add!(VectorSource::new(sig)) } else { add!(PieceSource::new(sig, c.pieces.clone())) };
        let prev = add!(Hilbert::new(prev, 65, &WindowType::Hamming));
        let prev = add!(QuadratureDemod::new(prev, 1.0));
        let prev = add!(FftFilterFloat::new(prev, &taps));
        let center = 1200.0 + (2200.0 - 1200.0) / 2.0;
        let prev = add!(add_const(prev, -center * 2.0 * std::f32::consts::PI / samp_rate));
        let filt = rustradio::iir_filter::IirFilter::new(&[0.5, 0.5]);
        let prev = add!(SymbolSync::new(
            prev,
            samp_rate / 1200.0,
            0.5,
            Box::new(rustradio::symbol_sync::TedZeroCrossing::new()),
            Box::new(filt)
        ));
        let prev = add!(BinarySlicer::new(prev));
        let prev = add!(NrziDecode::new(prev));
        add!(HdlcDeframer::new(prev, 10, 1500))
    } else {
        let samp_rate = c.rate as Float;
        let taps = rustradio::fir::low_pass_complex(samp_rate, 12_500.0, 100.0, &WindowType::Hamming);
        let fft_block = {
            let mut n = 1;
            while n < taps.len() {
                n <<= 1;
            }
            2 * n - taps.len()
        };
        let sps = c.rate as f64 / 9600.0;
        let trailing = ((2 * fft_block + 200) as f64 / sps / 8.0) as usize + 4;
        let mut sig = vec![Complex::new(0.0, 0.0); c.lead];
        sig.extend(g3ruh(&tx_bits(c, trailing), c.rate, c.phase, c.timing));
        let prev = if c.pieces.is_empty() { add!(VectorSource::new(sig)) } else { add!(PieceSource::new(sig, c.pieces.clone())) };
        let prev = add!(FftFilter::new(prev, &taps));
        let prev = add!(RationalResampler::new(prev, 50_000, c.rate as usize).map_err(|e| format!("{e}"))?);
        let prev = add!(QuadratureDemod::new(prev, 1.0));
        // The property names zero-crossing clock recovery for this chain.
        let prev = add!(ZeroCrossing::new(prev, 50_000.0 / 9600.0, 0.1));
        let prev = add!(BinarySlicer::new(prev));
        let prev = add!(NrziDecode::new(prev));
        let prev = add!(Descrambler::new(prev, 0x21, 0, 16));
        add!(HdlcDeframer::new(prev, 10, 1500))
    };
    let pdu_dir = std::env::temp_dir().join(format!("verif-e2e-pdu-{}", std::process::id()));
    let mut out = Some(out);
    if c.pduw {
        let _ = std::fs::remove_dir_all(&pdu_dir);
        std::fs::create_dir_all(&pdu_dir).map_err(|e| format!("machinery: {e}"))?;
        g.add(Box::new(PduWriter::<u8>::new(out.take().unwrap(), pdu_dir.clone())));
    }
    let r = catch(|| g.run());
    verif::set_virtual_time(true);
    match r {
        Err(p) => return Err(format!("panic: {p}")),
        Ok(Err(e)) => return Err(format!("error: {e}")),
        Ok(Ok(())) => {}
    }
    let mut got = vec![];
    if c.pduw {
        // Files are named by their time of arrival in microseconds.
        let mut names: Vec<(u128, std::path::PathBuf)> = std::fs::read_dir(&pdu_dir)
            .map_err(|e| format!("machinery: {e}"))?
            .filter_map(|e| e.ok())
            .filter_map(|e| e.file_name().to_str().and_then(|n| n.parse::<u128>().ok()).map(|n| (n, e.path())))
            .collect();
        names.sort();
        for (_, p) in names {
            got.push(std::fs::read(p).map_err(|e| format!("machinery: {e}"))?);
        }
        let _ = std::fs::remove_dir_all(&pdu_dir);
    } else if let Some(out) = out {
        while let Some((p, _)) = out.pop() {
            got.push(p);
        }
    }
    Ok(got)
}

/// The order of block constructors in an example file, for the stages we
/// re-assemble.
fn example_chain(path: &str, names: &[&str]) -> Result<Vec<String>, String> {
    let src = std::fs::read_to_string(path).map_err(|e| format!("{path}: {e}"))?;
    // Start at main(): the input-selection helpers above it are not part of
    // the chain proper.
    let start = src.find("fn main()").unwrap_or(0);
    let body = &src[start..];
    let mut found: Vec<(usize, String)> = vec![];
    for n in names {
        let pat = if *n == "add_const" { "add_const(".to_string() } else { format!("{n}::new") };
        let mut from = 0;
        while let Some(i) = body[from..].find(&pat) {
            let at = from + i;
            // Skip commented-out lines.
            let line_start = body[..at].rfind('\n').map(|x| x + 1).unwrap_or(0);
            let line = &body[line_start..at];
            if !line.trim_start().starts_with("//") {
                found.push((at, n.to_string()));
            }
            from = at + pat.len();
        }
    }
    found.sort();
    let mut out: Vec<String> = vec![];
    for (_, n) in found {
        if out.last() != Some(&n) {
            out.push(n);
        }
    }
    Ok(out)
}

pub fn replay_json(v: &Value) -> Result<(), String> {
    let c = Cfg::from_json(&v["cfg"]);
    let want = frames_of(&c);
    let got = run_cfg(&c)?;
    if got != want {
        return Err(format!("decoded {} frames, transmitted {}", got.len(), want.len()));
    }
    Ok(())
}

fn grid(thorough: bool) -> Vec<Cfg> {
    let mut v = vec![];
    let fams = ["zeros", "ones", "flags", "3f", "counting"];
    let lens = [10usize, 17, 64, 300];
    let frames = [1usize, 3, 8];
    let betweens = [2usize, 5];
    let preambles = [20usize, 100];
    let phases = [0.0f64, std::f64::consts::FRAC_PI_2];
    let timings = [0.0f64, 0.25, 0.5, 0.75];
    let rates1200 = [44100u32, 48000, 50000];
    let rates9600 = [50000u32, 100000];
    let mut k = 0usize;
    for (baud, rates) in [(1200u32, &rates1200[..]), (9600, &rates9600[..])] {
        for (fi, fam) in fams.iter().enumerate() {
            for (li, len) in lens.iter().enumerate() {
                for (ni, nf) in frames.iter().enumerate() {
                    for (bi, bt) in betweens.iter().enumerate() {
                        for (pi, pre) in preambles.iter().enumerate() {
                            for (hi, ph) in phases.iter().enumerate() {
                                for (ti, tm) in timings.iter().enumerate() {
                                    for (ri, rate) in rates.iter().enumerate() {
                                        k += 1;
                                        // Quick: a covering sub-grid (every value of every
                                        // axis appears; pairs are spread by a Latin-square
                                        // style index sum).
                                        let pick = thorough
                                            || (fi + li + ni + bi + pi + hi + ti + ri) % 23 == 0
                                            || (fi * 7 + li * 5 + ni * 3 + bi + pi * 2 + hi + ti * 11 + ri * 13) % 41 == 0;
                                        if !pick {
                                            continue;
                                        }
                                        // Keep long transmissions rarer in quick.
                                        if !thorough && *nf == 8 && *len == 300 {
                                            continue;
                                        }
                                        for mt in [false, true] {
                                            v.push(Cfg {
                                                baud,
                                                rate: *rate,
                                                family: fam.to_string(),
                                                len: *len,
                                                frames: *nf,
                                                between: *bt,
                                                preamble: *pre,
                                                phase: *ph,
                                                timing: *tm,
                                                mt,
                                                lead: 0,
                                                pieces: vec![],
                                                small: None,
 pduw: false,
                                            });
                                        }
                                    }
                                }
                            }
                        }
                    }
                }
            }
        }
    }
    let _ = k;
    if !thorough {
        // Transmissions longer than one stream buffer (8 x 300 bytes at 1200
        // baud is 700 k samples; a Complex stream holds 512 k): a few in quick
        // too, at every rate, on both runners.
        for (i, rate) in rates1200.iter().enumerate() {
            for mt in [false, true] {
                v.push(Cfg {
                    baud: 1200,
                    rate: *rate,
                    family: ["counting", "3f", "ones"][i].to_string(),
                    len: 300,
                    frames: 8,
                    between: 2,
                    preamble: 20,
                    phase: 0.0,
                    timing: 0.25 * i as f64,
                    mt,
                    lead: 0,
                    pieces: vec![],
                    small: None,
 pduw: false,
                });
            }
        }
    }
    // "At any position in the stream": transmissions that start after a long
    // silence, so that they cross the points where the chain's inner buffers
    // have wrapped and filled (beyond one million samples). And sources that
    // deliver the signal in uneven pieces, short ones included.
    let leads: &[usize] = if thorough { &[300_000, 600_000, 900_000, 1_400_000] } else { &[900_000] };
    for (baud, rates) in [(1200u32, &rates1200[..]), (9600, &rates9600[..])] {
        for (i, rate) in rates.iter().enumerate() {
            for lead in leads {
                for mt in [false, true] {
                    v.push(Cfg {
                        baud,
                        rate: *rate,
                        family: ["counting", "3f", "ones"][i].to_string(),
                        len: 300,
                        frames: 3,
                        between: 2,
                        preamble: 20,
                        phase: 0.0,
                        timing: 0.25 * i as f64,
                        mt,
                        lead: *lead,
                        pieces: vec![],
                        small: None,
 pduw: false,
                    });
                }
            }
            let piece_sets: Vec<Vec<usize>> = if thorough {
                vec![vec![1000, 20], vec![4096, 7], vec![64], vec![65, 1], vec![3000, 1, 1, 33]]
            } else {
                vec![vec![1000, 20], vec![4096, 7]]
            };
            for pieces in piece_sets {
                v.push(Cfg {
                    baud,
                    rate: *rate,
                    family: "counting".to_string(),
                    len: 64,
                    frames: 3,
                    between: 2,
                    preamble: 20,
                    phase: 0.0,
                    timing: 0.25 * i as f64,
                    mt: false,
                    lead: 0,
                    pieces,
                    small: None,
 pduw: false,
                });
            }
        }
    }
    // Delivery through PduWriter, as in the documented receivers.
    for (baud, rate) in [(1200u32, 48000u32), (9600, 50000)] {
        for frames in [3usize, 8] {
            for mt in [false, true] {
                v.push(Cfg {
                    baud,
                    rate,
                    family: "counting".to_string(),
                    len: 17,
                    frames,
                    between: 2,
                    preamble: 20,
                    phase: 0.0,
                    timing: 0.5,
                    mt,
                    lead: 0,
                    pieces: vec![],
                    small: None,
                    pduw: true,
                });
            }
        }
    }
    // Back pressure at every point of the chain in turn: one stream small, a
    // transmission several times its size.
    for (baud, rate, nstreams) in [(1200u32, 48000u32, 12usize), (9600, 50000, 11)] {
        for k in 0..nstreams {
            for mt in if thorough { vec![false, true] } else { vec![false] } {
                v.push(Cfg {
                    baud,
                    rate,
                    family: "counting".to_string(),
                    len: 64,
                    frames: 3,
                    between: 2,
                    preamble: 20,
                    phase: 0.0,
                    timing: 0.25,
                    mt,
                    lead: 0,
                    pieces: vec![],
                    small: Some(k),
 pduw: false,
                });
            }
        }
    }
    v
}

pub fn run(tier: &str, shard: Option<&str>) -> Report {
    let thorough = tier == "thorough";
    let mut rep = Report::new("C20", "e2e");
    rep.rule = "grid: payload family {00, FF, 7E, 3F-runs, counting} x length {10,17,64,300} x frames {1,3,8} x flags \
        between {2,5} x preamble {20,100} flags x start phase {0, pi/2} x symbol timing offset {0,1/4,1/2,3/4 sample} x sample \
        rate {44100,48000,50000 | 50000,100000} x runner {Graph, MTGraph}; quick = a covering sub-grid in which every axis \
        value appears, thorough = the full product. Each point is one transmission synthesised by the harness modulator and \
        decoded by the real chain; all are distinct and non-trivial."
        .into();
    rep.assumptions = vec![
        "chains are re-assembled in the harness from the examples; a conformance step compares the constructor order with examples/ax25-*-rx.rs".into(),
        "the 9600 chain uses the ZeroCrossing block for clock recovery, as the property states; the example's SymbolSync variant is not claimed".into(),
        "trailing flags of at least two FFT blocks follow the last frame (the FFT filters emit whole blocks only)".into(),
        "multi-threaded runs use real OS threads: schedule independence is C05's claim".into(),
    ];
    // Conformance with the examples.
    let checks = [
        ("/repo/examples/ax25-1200-rx.rs", &CHAIN_1200[..], None),
        ("/repo/examples/ax25-9600-rx.rs", &CHAIN_9600[..], Some(("SymbolSync", "ZeroCrossing"))),
    ];
    for (path, chain, _swap) in checks {
        match example_chain(path, chain) {
            Ok(found) => {
                let want: Vec<String> = chain.iter().map(|s| s.to_string()).collect();
                if found != want {
                    rep.cap(format!("machinery out of date: {path} builds {found:?}, the harness re-assembles {want:?}"));
                }
            }
            Err(e) => rep.cap(format!("machinery: cannot read example: {e}")),
        }
    }
    let (si, sn) = match shard {
        Some(s) => {
            let (a, b) = s.split_once('/').unwrap();
            (a.parse::<usize>().unwrap(), b.parse::<usize>().unwrap())
        }
        None => (0, 1),
    };
    let cfgs = grid(thorough);
    rep.set("grid_points", json!(cfgs.len()));
    for (i, c) in cfgs.iter().enumerate() {
        if i % sn != si {
            continue;
        }
        rep.evaluations += 1;
        rep.distinct_nontrivial += 1;
        let want = frames_of(c);
        let chain = if c.baud == 1200 { "rx1200" } else { "rx9600" };
        match run_cfg(c) {
            Err(m) => rep.violation(
                format!("C20/{chain}/{}", if m.starts_with("panic") { "panic" } else { "error" }),
                format!("{}: {m}", c.to_json()),
                json!({"engine": "e2e", "cfg": c.to_json()}),
            ),
            Ok(got) => {
                if got != want {
                    let clause = if got.len() < want.len() {
                        "frame-lost"
                    } else if got.len() > want.len() {
                        "extra-frame"
                    } else {
                        "wrong-bytes"
                    };
                    rep.violation(
                        format!("C20/{chain}/{clause}/{}", if c.mt { "mtgraph" } else { "graph" }),
                        format!("{}: decoded {} frames, transmitted {}", c.to_json(), got.len(), want.len()),
                        json!({"engine": "e2e", "cfg": c.to_json()}),
                    );
                }
            }
        }
        if rep.samples.len() < 4 {
            rep.sample(c.to_json());
        }
    }
    rep.states = rep.evaluations;
    rep.transitions = rep.evaluations;
    rep.traces_validated = rep.evaluations;
    rep
}
