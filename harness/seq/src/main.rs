//! Sequential engines: ring search, block environment search, graph program
//! enumeration, input enumeration.
mod envcheck;
mod crashx;
mod dsp;
mod e2e;
mod envx;
mod formats;
mod graphx;
mod hdlc;
mod maps;
mod repeatx;
mod ring;
mod subjects;
mod subjects_derive;
mod subjects_native;
mod subjects_src;

use vcommon::*;

fn usage() -> ! {
    eprintln!("usage: vseq <engine> <property> <tier> [shard] | vseq replay <file>");
    std::process::exit(3);
}

fn main() {
    let args: Vec<String> = std::env::args().collect();
    if args.len() < 3 {
        usage();
    }
    quiet_panics();
    rustradio::verif::set_virtual_time(true);
    if args[1] == "replay" {
        let txt = std::fs::read_to_string(&args[2]).expect("read replay file");
        let v: serde_json::Value = serde_json::from_str(&txt).expect("parse replay file");
        let r = match v["replay"]["engine"].as_str().unwrap_or("") {
            "ring" => ring::replay_json(&v["replay"]),
            "envx" => env_replay(&v),
            "graphx" => graphx::replay_json(&v["replay"]),
            "repeatx" => repeatx::replay_json(&v["replay"]),
            "hdlc" => hdlc::replay_json(&v["replay"]),
            "crashx" => crashx::replay_json(&v["replay"]),
            "maps" => maps::replay_json(&v["replay"]),
            "formats" => formats::replay_json(&v["replay"]),
            "dsp" => dsp::replay_json(&v["replay"]),
            "e2e" => e2e::replay_json(&v["replay"]),
            "derive-eof" => {
                let mut tmp = vcommon::Report::new("C19", "envx");
                subjects_derive::eof_matrix(&mut tmp);
                match tmp.violations.iter().find(|x| x.replay["combo"] == v["replay"]["combo"] && x.replay["n"] == v["replay"]["n"]) {
                    Some(x) => Err(x.message.clone()),
                    None => Ok(()),
                }
            }
            e => Err(format!("unknown engine {e:?}")),
        };
        match r {
            Ok(()) => {
                println!("replay: no violation");
                std::process::exit(0);
            }
            Err(m) => {
                println!("replay: VIOLATION reproduced: {m}");
                std::process::exit(1);
            }
        }
    }
    if args.len() < 4 {
        usage();
    }
    let prop: &'static str = Box::leak(args[2].clone().into_boxed_str());
    let tier = args[3].as_str();
    let shard = args.get(4).map(|s| s.as_str());
    // Some library blocks print every sample to stdout (DebugSink): keep that
    // out of the result channel.
    let saved_stdout = unsafe {
        use std::io::Write;
        std::io::stdout().flush().ok();
        let saved = libc::dup(1);
        let null = libc::open(c"/dev/null".as_ptr(), libc::O_WRONLY);
        libc::dup2(null, 1);
        libc::close(null);
        saved
    };
    let rep = match args[1].as_str() {
        "ring" => ring::run(prop, tier, shard),
        "env" => env_run(prop, tier, shard),
        "graph" => graphx::run(tier, shard),
        "repeat" => repeatx::run(tier),
        "hdlc" => hdlc::run(tier, shard),
        "crash" => crashx::run(tier, shard),
        "maps" => maps::run(tier, shard),
        "formats" => formats::run(tier, shard),
        "dsp" => dsp::run(tier, shard),
        "e2e" => e2e::run(tier, shard),
        _ => usage(),
    };
    unsafe {
        use std::io::Write;
        std::io::stdout().flush().ok();
        libc::dup2(saved_stdout, 1);
        libc::close(saved_stdout);
    }
    rep.emit();
}

fn env_run(prop: &'static str, tier: &str, shard: Option<&str>) -> Report {
    let thorough = tier == "thorough";
    let mut rep = Report::new(prop, "envx");
    rep.rule = "executions of one real block with the harness as its whole environment: every sequence of environment \
        actions (feed k samples to an input, release k held output samples, satisfy exactly the stream the block said it \
        waits for, do nothing) up to a horizon, each followed by work(), from several ring offsets / output fill levels, \
        then a deterministic flush; every execution with at least one action is non-trivial and distinct by its action list"
        .into();
    rep.assumptions = vec![
        "test vectors are fixed per block variant (listed in the subject id); chunking, free space and ring position are what is enumerated".into(),
        "one-shot delivery on ample streams is the reference behaviour".into(),
    ];
    let (i, n) = match shard {
        Some(s) => {
            let (a, b) = s.split_once('/').unwrap();
            (a.parse::<usize>().unwrap(), b.parse::<usize>().unwrap())
        }
        None => (0, 1),
    };
    let horizon = match (prop, thorough) {
        ("C12", false) => 3,
        ("C12", true) => 4,
        ("C19", false) => 3,
        ("C19", true) => 4,
        (_, false) => 4,
        (_, true) => 5,
    };
    let cfg = envcheck::EnvCfg {
        prop,
        horizon,
        // (The tag placements of C12 and the arities of C19 multiply the
        // subjects: their warm enumeration stays one step shallower.)
        warm_horizon: if thorough && !matches!(prop, "C12" | "C19") { horizon } else { horizon - 1 },
    };
    let mut subs = subjects::all_subjects(prop, thorough);
    {
        // Steady state too: every subject with inputs is also enumerated
        // after a first delivery that gets it past its start-up transient
        // (one step shallower in the quick tier).
        for s in subs.iter_mut() {
            if s.warmup.is_empty() && !s.infinite_source && !s.ins_hint_no_inputs() {
                s.warmup = vec![envx::Act::FeedAll(2 * s.quantum.max(1) + 1)];
            }
        }
    }
    for (k, sub) in subs.iter().enumerate() {
        if k % n != i {
            continue;
        }
        if let Ok(f) = std::env::var("VERIF_SUBJECT") {
            if !sub.id().contains(&f) {
                continue;
            }
        }
        envcheck::explore(&mut rep, sub, &cfg);
        if prop == "C09" && !sub.infinite_source {
            envcheck::downstream_gone(&mut rep, sub);
        }
    }
    if prop == "C19" && i == 0 {
        subjects_derive::eof_matrix(&mut rep);
    }
    let _ = std::fs::remove_dir_all(std::env::temp_dir().join(format!("verif-pdu-{}", std::process::id())));
    if matches!(prop, "C16" | "C14" | "C12") {
        subjects_src::cleanup();
    }
    rep.set("horizon", serde_json::json!(horizon));
    rep
}

fn env_replay(v: &serde_json::Value) -> Result<(), String> {
    let want = v["replay"]["subject"].as_str().unwrap().to_string();
    if v["replay"]["mode"] == "downstream-gone" {
        for thorough in [false, true] {
            for sub in subjects::all_subjects("C09", thorough) {
                if sub.id() == want {
                    let mut rep = Report::new("C09", "envx");
                    envcheck::downstream_gone(&mut rep, &sub);
                    return match rep.violations.first() {
                        Some(x) => Err(format!("[{}] {}", x.signature, x.message)),
                        None => Ok(()),
                    };
                }
            }
        }
        return Err(format!("machinery: subject {want} not found"));
    }
    let prop = v["property"].as_str().unwrap_or("C08").to_string();
    let prop: &'static str = Box::leak(prop.into_boxed_str());
    let start = envx::Start::from_json(&v["replay"]["start"]);
    let acts: Vec<envx::Act> = v["replay"]["acts"].as_array().unwrap().iter().map(envx::Act::from_json).collect();
    for p in [prop, "C08", "C09", "C12", "C10", "C16", "C19", "C15"] {
        for thorough in [false, true] {
            for sub in subjects::all_subjects(p, thorough) {
                if sub.id() == want {
                    let mut rep = Report::new(prop, "envx");
                    envcheck::replay_one(&mut rep, &sub, prop, &start, &acts);
                    let sig = v["signature"].as_str().unwrap_or("");
                    return match rep.violations.iter().find(|x| x.signature == sig).or(rep.violations.first()) {
                        Some(x) => Err(format!("[{}] {}", x.signature, x.message)),
                        None => Ok(()),
                    };
                }
            }
        }
    }
    Err(format!("machinery: subject {want} not found"))
}
