//! Sequential engines: ring search, block environment search, graph program
//! enumeration, input enumeration.
mod ring;

use vcommon::*;

fn usage() -> ! {
    eprintln!("usage: vseq <engine> <property> <tier> [shard] | vseq replay <file>");
    std::process::exit(3);
}

fn main() {
    let args: Vec<String> = std::env::args().collect();
    if args.len() < 3 {
        usage();
    }
    quiet_panics();
    rustradio::verif::set_virtual_time(true);
    if args[1] == "replay" {
        let txt = std::fs::read_to_string(&args[2]).expect("read replay file");
        let v: serde_json::Value = serde_json::from_str(&txt).expect("parse replay file");
        let r = match v["replay"]["engine"].as_str().unwrap_or("") {
            "ring" => ring::replay_json(&v["replay"]),
            e => Err(format!("unknown engine {e:?}")),
        };
        match r {
            Ok(()) => {
                println!("replay: no violation");
                std::process::exit(0);
            }
            Err(m) => {
                println!("replay: VIOLATION reproduced: {m}");
                std::process::exit(1);
            }
        }
    }
    if args.len() < 4 {
        usage();
    }
    let prop: &'static str = Box::leak(args[2].clone().into_boxed_str());
    let tier = args[3].as_str();
    let shard = args.get(4).map(|s| s.as_str());
    let rep = match args[1].as_str() {
        "ring" => ring::run(prop, tier, shard),
        _ => usage(),
    };
    rep.emit();
}
